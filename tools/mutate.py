#!/usr/bin/env python3
"""Sensitivity runs: apply one deliberate breakage to /repo's working tree,
run the checks that should notice, restore the tree. Never commits to /repo.
usage: mutate.py [name-substring ...]   (env SECS=10)"""
import subprocess, sys, os, json, time
REPO=os.environ.get('VP_RUN_REPO') or os.environ.get('MUTATE_REPO') or '/repo'
VERIF=os.path.dirname(os.path.dirname(os.path.abspath(__file__)))
M=[]
def m(name, props, file, old, new, count=1):
    M.append(dict(name=name, props=props, file=file, old=old, new=new, count=count))

# ---- C01
m('c01-get-no-conflict-check', ['C01'], 'store.go', """	if conflict != 0 && (conflict != item.conflict) {
		return zeroValue[V](), false
	}

	// Handle expired items.""", """
	// Handle expired items.""")
m('c01-update-no-conflict-check', ['C01'], 'store.go', """	if newItem.Conflict != 0 && (newItem.Conflict != item.conflict) {
		return zeroValue[V](), false
	}
	if m.shouldUpdate != nil && !m.shouldUpdate(newItem.Value, item.value) {
		return item.value, false
	}
""", """	if m.shouldUpdate != nil && !m.shouldUpdate(newItem.Value, item.value) {
		return item.value, false
	}
""")
# ---- C02
m('c02-onexit-before-update', ['C02','C04'], 'cache.go', """	if prev, ok := c.storedItems.Update(i); ok {
		verifYield(verifSiteSetDetached, keyHash)
		c.onExit(prev)
		i.flag = itemUpdate
	}""", """	if old, has := c.storedItems.Get(keyHash, conflictHash); has {
		c.onExit(old)
	}
	if _, ok := c.storedItems.Update(i); ok {
		verifYield(verifSiteSetDetached, keyHash)
		i.flag = itemUpdate
	}""")
m('c02-evict-report-before-del', ['C02','C04'], 'cache.go', """					victim.Conflict, victim.Value = c.storedItems.Del(victim.Key, 0)
					onEvict(victim)""", """					if vv, ok := c.storedItems.Get(victim.Key, 0); ok {
						victim.Value = vv
						onEvict(victim)
						verifYield(verifSiteApplierVictim, victim.Key)
						c.storedItems.Del(victim.Key, 0)
					}""")
# ---- C03
m('c03-room-gt-0', ['C03','C09'], 'policy.go', "	if room >= 0 {", "	if room > 0 {")
m('c03-room-ge-minus1', ['C03'], 'policy.go', "	if room >= 0 {", "	if room >= -1 {")
m('c03-del-no-used-decrement', ['C03','C17'], 'policy.go', """	p.used -= cost
	delete(p.keyCosts, key)""", """	delete(p.keyCosts, key)""")
m('c03-no-toobig-reject', ['C03','C09'], 'policy.go', """	if cost > p.evict.getMaxCost() {
		return nil, false
	}
""", "")
m('c03-update-wrong-delta', ['C03','C17'], 'policy.go', "		p.used += cost - prev", "		p.used += cost")
m('c03-loop-room-off-by-one', ['C03'], 'policy.go', "	for ; room < 0; room = p.evict.roomLeft(cost) {", "	for ; room < -1; room = p.evict.roomLeft(cost) {")
# ---- C04
m('c04-no-onexit-after-update', ['C04'], 'cache.go', """		verifYield(verifSiteSetDetached, keyHash)
		c.onExit(prev)
""", """		verifYield(verifSiteSetDetached, keyHash)
		_ = prev
""")
m('c04-clear-drain-evicts-updates', ['C04'], 'cache.go', """			if i.flag != itemUpdate {
				// In itemUpdate, the value is already set in the storedItems.  So, no need to call
				// onEvict here.
				c.onEvict(i)
			}""", """			c.onEvict(i)""")
m('c04-no-onreject', ['C04','C09'], 'cache.go', """					verifYield(verifSiteApplierReject, i.Key)
					c.onReject(i)""", """					verifYield(verifSiteApplierReject, i.Key)""")
m('c04-dropped-set-returns-true', ['C04','C17'], 'cache.go', """		c.Metrics.add(dropSets, keyHash, 1)
		return false""", """		c.Metrics.add(dropSets, keyHash, 1)
		return true""")
m('c04-tombstone-no-onexit', ['C04','C05'], 'cache.go', """				_, val := c.storedItems.Del(i.Key, i.Conflict)
				c.onExit(val)""", """				c.storedItems.Del(i.Key, i.Conflict)""")
# ---- C05
m('c05-no-tombstone', ['C05'], 'cache.go', """	c.setBuf <- &Item[V]{
		flag:     itemDelete,
		Key:      keyHash,
		Conflict: conflictHash,
	}""", """	_ = conflictHash""")
m('c05-tombstone-nonblocking', ['C05'], 'cache.go', """	c.setBuf <- &Item[V]{
		flag:     itemDelete,
		Key:      keyHash,
		Conflict: conflictHash,
	}""", """	select {
	case c.setBuf <- &Item[V]{
		flag:     itemDelete,
		Key:      keyHash,
		Conflict: conflictHash,
	}:
	default:
	}""")
m('c05-tombstone-skips-map', ['C05','C13'], 'cache.go', """				_, val := c.storedItems.Del(i.Key, i.Conflict)
				c.onExit(val)""", """				var val V
				c.onExit(val)""")
# ---- C06
m('c06-marker-closed-early', ['C06'], 'cache.go', """	wait := make(chan struct{})
	verifYield(verifSiteWaitSend, 0)
	c.setBuf <- &Item[V]{wait: wait}""", """	wait := make(chan struct{})
	verifYield(verifSiteWaitSend, 0)
	if len(c.setBuf) > 2 {
		close(wait)
		return
	}
	c.setBuf <- &Item[V]{wait: wait}""")
m('c06-skip-store-set-sometimes', ['C06','C13'], 'cache.go', """				if added {
					c.storedItems.Set(i)""", """				if added {
					if i.Key%7 != 3 {
						c.storedItems.Set(i)
					}""")
m('c06-applier-drops-item', ['C06','C04'], 'cache.go', """			case itemUpdate:
				verifEvent(verifEvApplierUpdate, i.Key, i.Cost, 0)""", """			case itemUpdate:
				if len(c.setBuf) == 3 {
					continue
				}
				verifEvent(verifEvApplierUpdate, i.Key, i.Cost, 0)""")
# ---- C07
m('c07-get-no-expiry', ['C07'], 'store.go', """	if !item.expiration.IsZero() && time.Now().After(item.expiration) {
		return zeroValue[V](), false
	}
	return item.value, true""", """	return item.value, true""")
m('c07-iter-no-expiry', ['C07'], 'store.go', """				if !item.expiration.IsZero() && time.Now().After(item.expiration) {
					continue
				}""", "")
m('c07-after-to-before', ['C07','C06'], 'store.go', """	if !item.expiration.IsZero() && time.Now().After(item.expiration) {
		return zeroValue[V](), false
	}
	return item.value, true""", """	if !item.expiration.IsZero() && time.Now().Before(item.expiration) {
		return zeroValue[V](), false
	}
	return item.value, true""")
m('c07-old-expiration-on-overwrite', ['C07'], 'store.go', """		value:      newItem.Value,
		expiration: newItem.Expiration,""", """		value:      newItem.Value,
		expiration: item.expiration,""")
m('c07-negative-ttl-stored', ['C07'], 'cache.go', """	case ttl < 0:
		// Treat this a no-op.
		return false""", """	case ttl < -1000000:
		// Treat this a no-op.
		return false""")
# ---- C09
m('c09-pick-max', ['C09'], 'policy.go', "			if hits := p.admit.Estimate(pair.key); hits < minHits {", "			if hits := p.admit.Estimate(pair.key); hits > minHits || minHits == math.MaxInt64 {")
m('c09-reject-le', ['C09'], 'policy.go', "		if incHits < minHits {", "		if incHits <= minHits {")
m('c09-reject-gt', ['C09'], 'policy.go', "		if incHits < minHits {", "		if incHits > minHits {")
m('c09-evict-first', ['C09'], 'policy.go', "			if hits := p.admit.Estimate(pair.key); hits < minHits {", "			if hits := p.admit.Estimate(pair.key); i == 0 {")
# ---- C13
m('c13-tombstone-no-policy-del', ['C13','C03'], 'cache.go', """				c.cachePolicy.Del(i.Key) // Deals with metrics updates.
""", "")
m('c13-second-victim-stays', ['C13'], 'cache.go', """				for _, victim := range victims {
					verifYield(verifSiteApplierVictim, victim.Key)""", """				for vi, victim := range victims {
					if vi == 1 {
						continue
					}
					verifYield(verifSiteApplierVictim, victim.Key)""")
m('c13-clear-no-policy-clear', ['C13','C15'], 'cache.go', """	c.cachePolicy.Clear()
	c.storedItems.Clear(c.onEvict)""", """	c.storedItems.Clear(c.onEvict)""")
m('c13-sweep-map-only', ['C13','C14'], 'ttl.go', """			cost := policy.Cost(key)
			policy.Del(key)
""", """			cost := policy.Cost(key)
""")
# ---- C14
m('c14-revert-conditional-delete', ['C14'], 'store.go', """	if item.expiration.IsZero() || item.expiration.After(now) {
		return zeroValue[V](), time.Time{}, false
	}
""", """	if item.expiration.After(now) {
		return zeroValue[V](), time.Time{}, false
	}
""")
m('c14-sweep-current-bucket', ['C14'], 'ttl.go', "	return storageBucket(t) - 1", "	return storageBucket(t)")
m('c14-no-em-update', ['C14'], 'store.go', """	m.em.update(newItem.Key, newItem.Conflict, item.expiration, newItem.Expiration)
""", "")
m('c14-late-bucket', ['C14'], 'ttl.go', """	if bucketNum <= m.lastCleanedBucketNum {
		return m.lastCleanedBucketNum + 1
	}
	return bucketNum""", """	return bucketNum""")
# ---- C15
m('c15-close-no-clear', ['C15','C04'], 'cache.go', """	c.Clear()

	// Block until processItems goroutine is returned.
	verifYield(verifSiteCloseStart, 0)""", """	// Block until processItems goroutine is returned.
	verifYield(verifSiteCloseStart, 0)""")
m('c15-clear-no-marker-close', ['C15','C08'], 'cache.go', """			if i.wait != nil {
				verifEvent(verifEvClearMarker, 0, 0, 0)
				close(i.wait)
				continue
			}
			verifEvent(verifEvClearDrained, i.Key, int64(i.flag), 0)""", """			if i.wait != nil {
				continue
			}
			verifEvent(verifEvClearDrained, i.Key, int64(i.flag), 0)""")
m('c15-policy-not-stopped', ['C15'], 'cache.go', """	c.cachePolicy.Close()
""", "")
m('c15-clear-no-metrics-reset', ['C15','C17'], 'cache.go', """	if c.Metrics != nil {
		c.Metrics.Clear()
	}""", "")
# ---- C17
m('c17-keyadd-before-decision', ['C17'], 'cache.go', """				victims, added := c.cachePolicy.Add(i.Key, i.Cost)""", """				c.Metrics.add(keyAdd, i.Key, 1)
				victims, added := c.cachePolicy.Add(i.Key, i.Cost)
				c.Metrics.add(keyAdd, i.Key, ^uint64(0))""")
m('c17-keyadd-always', ['C17'], 'cache.go', """				if added {
					c.storedItems.Set(i)
					c.Metrics.add(keyAdd, i.Key, 1)""", """				c.Metrics.add(keyAdd, i.Key, 1)
				if added {
					c.storedItems.Set(i)""")
m('c17-no-costevict', ['C17'], 'policy.go', """	p.metrics.add(costEvict, key, uint64(cost))
""", "")
m('c17-drop-counted-for-updates', ['C17'], 'cache.go', """		if i.flag == itemUpdate {
			// Return true if this was an update operation since we've already
			// updated the storedItems. For all the other operations (set/delete), we
			// return false which means the item was not inserted.
			return true
		}""", """		if i.flag == itemUpdate {
			c.Metrics.add(dropSets, keyHash, 1)
			return true
		}""")
m('c17-full-cost-on-overwrite', ['C17'], 'policy.go', """			p.metrics.add(costAdd, key, uint64(diff))
		}
		p.used += cost - prev""", """			p.metrics.add(costAdd, key, uint64(cost)+uint64(diff-diff))
		}
		p.used += cost - prev""")
m('c17-hits-in-getttl', ['C17'], 'cache.go', """	if _, ok := c.storedItems.Get(keyHash, conflictHash); !ok {
		// not found
		return 0, false
	}
""", """	if _, ok := c.storedItems.Get(keyHash, conflictHash); !ok {
		// not found
		return 0, false
	}
	c.Metrics.add(hit, keyHash, 1)
""")

# ---- C08
m('c08-update-no-lock', ['C08'], 'store.go', """	verifYield(verifSiteStoreUpdate, newItem.Key)
	m.Lock()
	defer m.Unlock()
""", """	verifYield(verifSiteStoreUpdate, newItem.Key)
""")
m('c08-maxcost-plain-load', ['C08'], 'policy.go', """	return atomic.LoadInt64(&p.maxCost)""", """	return p.maxCost""")
m('c08-expiration-no-lock', ['C08'], 'store.go', """	verifYield(verifSiteStoreExpiration, key)
	m.RLock()
	defer m.RUnlock()
	return m.data[key].expiration""", """	verifYield(verifSiteStoreExpiration, key)
	return m.data[key].expiration""")
m('c08-life-histogram-unlocked', ['C08'], 'cache.go', """	p.mu.Lock()
	defer p.mu.Unlock()
	p.life.Update(numSeconds)""", """	p.life.Update(numSeconds)""")
m('c08-policy-has-no-lock', ['C08'], 'policy.go', """	verifYield(verifSitePolicyCap, 0)
	p.Lock()
	capacity := p.evict.getMaxCost() - p.evict.used
	p.Unlock()""", """	verifYield(verifSitePolicyCap, 0)
	capacity := p.evict.getMaxCost() - p.evict.used""")
m('c08-wait-marker-dropped-when-full', ['C08'], 'cache.go', """	verifYield(verifSiteWaitSend, 0)
	c.setBuf <- &Item[V]{wait: wait}""", """	verifYield(verifSiteWaitSend, 0)
	select {
	case c.setBuf <- &Item[V]{wait: wait}:
	default:
	}""")
m('c08-clear-forgets-restart-when-empty', ['C08','C15'], 'cache.go', """	verifYield(verifSiteClearRestart, 0)
	go c.processItems()""", """	verifYield(verifSiteClearRestart, 0)
	if len(c.setBuf) == 0 {
		go c.processItems()
	}""")
m('c08-iter-panics-on-stop', ['C08'], 'store.go', """				if stop := cb(item.value); stop {
					return true
				}""", """				if stop := cb(item.value); stop {
					var mm map[int]int
					mm[1] = 1
					return true
				}""")

# ---- z: C10 / C16
m('c10-revert-leafmax-value', ['C10'], 'z/btree.go', """			n.setAt(valOffset(right), 0)
""", "")
m('c10-split-loses-a-key', ['C10'], 'z/btree.go', "	nn.setNumKeys(maxKeys - maxKeys/2)", "	nn.setNumKeys(maxKeys - maxKeys/2 - 1)")
m('c10-moveright-one-short', ['C10'], 'z/btree.go', "	copy(n[keyOffset(lo+1):keyOffset(hi+1)], n[keyOffset(lo):keyOffset(hi)])", "	copy(n[keyOffset(lo+1):keyOffset(hi)], n[keyOffset(lo):keyOffset(hi-1)])")
m('c10-compact-drops-maxkey', ['C10'], 'z/btree.go', """			if n.key(right) < mk {
				// Skip over this key. Don't copy it.
				continue
			}""", """			if n.key(right) <= mk && right < N-1 || n.key(right) < mk {
				// Skip over this key. Don't copy it.
				continue
			}""")
m('c10-free-last-child', ['C10','C16'], 'z/btree.go', "		if rem := t.compact(child, ts); rem == 0 && i < N-1 {", "		if rem := t.compact(child, ts); rem == 0 && i < N {")
m('c10-recycled-page-not-zeroed', ['C10','C16'], 'z/btree.go', """	zeroOut(n)
	n.setBit(bit)""", """	if t.freePage == 0 && pageId == t.nextPage-1 {
		zeroOut(n)
	}
	n.setBit(bit)""")
m('c10-iterate-rewrite-wrong-slot', ['C10'], 'z/btree.go', "				n.setAt(valOffset(i), newVal)", "				n.setAt(valOffset(i+1)%len(n), newVal)")
m('c16-reinit-frontier-from-2', ['C16'], 'z/btree.go', """	// Calculate t.nextPage by finding the first node whose pageID is not set.
	t.nextPage = 1""", """	// Calculate t.nextPage by finding the first node whose pageID is not set.
	t.nextPage = 2""")
m('c16-reinit-last-free-head', ['C16'], 'z/btree.go', """			t.freePage = pageId
			break""", """			t.freePage = pageId""")
m('c16-reinit-no-free-count', ['C16'], 'z/btree.go', """			t.stats.NumPagesFree++
		}
	}

	// Mark all pages being pointed to""", """		}
	}

	// Mark all pages being pointed to""")
m('c16-newnode-link-read-late', ['C16','C10'], 'z/btree.go', """	if t.freePage > 0 {
		t.freePage = n.uint64(0)
	}
	zeroOut(n)""", """	zeroOut(n)
	if t.freePage > 0 {
		t.freePage = n.uint64(0)
	}""")
m('c16-leafkeys-not-recounted', ['C16'], 'z/btree.go', """			if n.isLeaf() {
				t.stats.NumLeafKeys += n.numKeys()
			}
		})""", """		})""")
# ---- z: C11
m('c11-grow-copy-short', ['C11'], 'z/buffer.go', """		newBuf := Calloc(b.curSz, b.tag)
		assert(int(b.offset) == copy(newBuf, b.buf[:b.offset]))""", """		newBuf := Calloc(b.curSz, b.tag)
		copy(newBuf, b.buf[:b.offset-1])""")
m('c11-automap-copy-short', ['C11'], 'z/buffer.go', """			assert(int(b.offset) == copy(mmapFile.Data, b.buf[:b.offset]))""", """			copy(mmapFile.Data, b.buf[:b.offset/2])""")
m('c11-maxsize-ge', ['C11'], 'z/buffer.go', "	if b.maxSz > 0 && int(b.offset)+n > b.maxSz {", "	if b.maxSz > 0 && int(b.offset)+n >= b.maxSz {")
m('c11-maxsize-ignored-after-grow', ['C11'], 'z/buffer.go', "	if b.maxSz > 0 && int(b.offset)+n > b.maxSz {", "	if b.maxSz > 0 && b.curSz <= b.maxSz && int(b.offset)+n > b.maxSz {")
m('c11-merge-drops-right-tail', ['C11'], 'z/buffer.go', """		if len(left) == 0 {
			assert(len(right) == copy(s.b.buf[start:end], right))
			return
		}""", """		if len(left) == 0 {
			return
		}""")
m('c11-merge-less-args-swapped', ['C11'], 'z/buffer.go', "		if s.less(ls[8:], rs[8:]) {", "		if s.less(rs[8:], ls[8:]) {")
m('c11-sort-skips-last-chunk', ['C11'], 'z/buffer.go', """	left := offsets[0]
	for _, off := range offsets[1:] {""", """	left := offsets[0]
	for _, off := range offsets[1 : len(offsets)-1+len(offsets)%2] {""")
m('c11-slice-next-off-by-one', ['C11'], 'z/buffer.go', """	if next >= int(b.offset) {
		next = -1
	}
	return res, next""", """	if next+8 >= int(b.offset) {
		next = -1
	}
	return res, next""")
m('c11-reset-keeps-padding-wrong', ['C11'], 'z/buffer.go', "	b.offset = uint64(b.StartOffset())", "	b.offset = uint64(b.StartOffset()) + uint64(b.curSz&1)")
# ---- z: C12
m('c12-no-recheck-under-lock', ['C12'], 'z/allocator.go', """			if newBufIdx != bufIdx {
				a.Unlock()
				verifYield(verifSiteAllocUnlocked)
				continue
			}""", """			_ = newBufIdx""")
m('c12-aligned-not-zeroed', ['C12'], 'z/allocator.go', "	ZeroOut(out, 0, len(out))", "	_ = out")
m('c12-overshoot-check-off-by-one', ['C12'], 'z/allocator.go', "		if posIdx > len(buf) {", "		if posIdx > len(buf)+1 {")
m('c12-publish-before-add', ['C12'], 'z/allocator.go', """			a.addBufferAt(bufIdx+1, sz)
			atomic.StoreUint64(&a.compIdx, uint64((bufIdx+1)<<32))""", """			atomic.StoreUint64(&a.compIdx, uint64((bufIdx+1)<<32))
			verifYield(verifSiteAllocAdded)
			a.addBufferAt(bufIdx+1, sz)""")
m('c12-slice-one-too-long', ['C12'], 'z/allocator.go', "		data := buf[posIdx-sz : posIdx]", "		data := buf[posIdx-sz : posIdx : posIdx+1]")
m('c12-copy-short', ['C12'], 'z/allocator.go', """	out := a.Allocate(len(buf))
	copy(out, buf)""", """	out := a.Allocate(len(buf))
	copy(out, buf[:len(buf)-len(buf)/64])""")
m('c12-revert-trim-first-chunk', ['C12'], 'z/allocator.go', "		if i == 0 || alloc < max {", "		if alloc < max {")
m('c12-revert-size-from-nearest-buffer', ['C12'], 'z/allocator.go', """	prev := bufIdx - 1
	for prev > 0 && len(a.buffers[prev]) == 0 {
		prev--
	}
	pageSize := 2 * len(a.buffers[prev])""", """	pageSize := 2 * len(a.buffers[bufIdx-1])""")
m('c12-reset-keeps-chunk-index', ['C12'], 'z/allocator.go', "	atomic.StoreUint64(&a.compIdx, 0)", "	atomic.StoreUint64(&a.compIdx, atomic.LoadUint64(&a.compIdx)&^0xFFFFFFFF)")

def run(cmd, **kw):
    return subprocess.run(cmd, shell=True, capture_output=True, text=True, **kw)

def main():
    sel = sys.argv[1:]
    secs = os.environ.get('SECS','10')
    results=[]
    for mu in M:
        if sel and not any(s in mu['name'] for s in sel): continue
        path=os.path.join(REPO,mu['file'])
        src=open(path).read()
        if src.count(mu['old'])!=mu['count']:
            print(f"{mu['name']}: ANCHOR NOT FOUND ({src.count(mu['old'])})"); continue
        open(path,'w').write(src.replace(mu['old'],mu['new']))
        try:
            b=run(f"cd {REPO} && go build ./... 2>&1")
            if b.returncode!=0:
                print(f"{mu['name']}: does not build: {b.stdout[:300]}"); continue
            for p in mu['props']:
                t=time.time()
                r=run(f"cd {VERIF} && VERIF_REPO={REPO} VERIF_EVIDENCE_DIR={VERIF}/.work/evidence-scratch VERIF_SECONDS={secs} ./check {p} quick")
                lines=[l for l in r.stdout.splitlines() if l.startswith('VIOLATION') or l.strip().startswith('rule=')]
                rules=[l.strip().split()[0] for l in r.stdout.splitlines() if l.strip().startswith('rule=')]
                status={0:'MISSED',1:'CAUGHT',2:'MACHINERY'}.get(r.returncode,str(r.returncode))
                print(f"{mu['name']:40s} {p} {status:9s} {','.join(rules)[:90]} ({time.time()-t:.0f}s)", flush=True)
                if r.returncode==2: print(r.stdout[-500:], r.stderr[-500:])
                if os.environ.get('SHOW'): print(r.stdout[:int(os.environ['SHOW'])])
                results.append((mu['name'],p,status,rules))
                if os.environ.get('ROUNDTRIP') and r.returncode==1:
                    import re
                    mm=re.search(r'replay=(\S+)', r.stdout)
                    if mm:
                        rp=mm.group(1)
                        r1=run(f"cd {VERIF} && VERIF_REPO={REPO} ./check --replay {rp}")
                        open(path,'w').write(src)   # restore the tree
                        r0=run(f"cd {VERIF} && VERIF_REPO={REPO} ./check --replay {rp}")
                        open(path,'w').write(src.replace(mu['old'],mu['new']))
                        ok = r1.returncode==1 and r0.returncode==0
                        print(f"    replay round trip: with change rc={r1.returncode}, without rc={r0.returncode} -> {'OK' if ok else 'BAD'}", flush=True)
                        if not ok: print(r1.stdout[-400:], r0.stdout[-400:])
        finally:
            open(path,'w').write(src)
    run(f"git -C {REPO} checkout -- .")
    os.makedirs(f'{VERIF}/.work',exist_ok=True); json.dump(results, open(f'{VERIF}/.work/mutate_results.json','w'), indent=1)
    print('mutants run:', len(results), 'missed:', sum(1 for r in results if r[2]=='MISSED'))
main()
