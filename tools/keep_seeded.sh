#!/bin/bash
# usage: keep_seeded.sh <Cxx> <name> <needs...text> -- <checks...>
# confirms the agent's change in /tmp/wt-Cxx, copies it to /verif/seeded/<name>, runs the checks, writes meta.json
set -u
id="$1"; name="$2"; needs="$3"; shift 4
mkdir -p /verif/seeded/$name
if [ -n "${CONFIRM_LOG:-}" ]; then cp "$CONFIRM_LOG" /verif/seeded/$name/confirm.log; else /verif/tools/confirm_seeded.sh $id > /verif/seeded/$name/confirm.log 2>&1; fi
cp /tmp/wt-$id/seeded/patch.diff /tmp/wt-$id/seeded/demo_test.go /tmp/wt-$id/seeded/notes.md /verif/seeded/$name/ 2>/dev/null
res=$(/verif/tools/try_patch.sh /verif/seeded/$name/patch.diff ${SECS:-12} "$@" 2>&1)
echo "$res" > /verif/seeded/$name/checks.log
python3 - "$id" "$name" "$needs" <<PY
import json,sys,re
id,name,needs=sys.argv[1:4]
conf=open(f'/verif/seeded/{name}/confirm.log').read()
checks=open(f'/verif/seeded/{name}/checks.log').read().strip().splitlines()
caught=[l.split()[0] for l in checks if ' rc=1 ' in l+' ']
meta={"property":id,"name":name,"needs_to_manifest":needs,
 "confirmed":{"demo_fails_with_change":"FAIL" in conf.split("== demo with the change")[1].split("== demo without")[0],
   "full_suite_passes_with_change":conf.split("== full suite")[1].split("== demo with the change")[0].count("ok  ")>=4 and "FAIL" not in conf.split("== full suite")[1].split("== demo with the change")[0],
   "demo_passes_without_change":"ok  " in conf.split("== demo without")[1] and "FAIL" not in conf.split("== demo without")[1]},
 "ran":["tools/confirm_seeded.sh "+id, "tools/try_patch.sh seeded/%s/patch.diff <secs> %s"%(name," ".join(l.split()[0] for l in checks))],
 "checks":checks,"caught_by":caught}
json.dump(meta,open(f'/verif/seeded/{name}/meta.json','w'),indent=1)
print(json.dumps(meta["confirmed"]), "caught_by", caught)
for l in checks: print("  ",l[:200])
PY
