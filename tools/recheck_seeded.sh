#!/bin/bash
# usage: recheck_seeded.sh <name> <checks...>   re-runs the checks against an already confirmed seeded change and updates meta.json
set -u
name="$1"; shift
res=$(/verif/tools/try_patch.sh /verif/seeded/$name/patch.diff ${SECS:-12} "$@" 2>&1)
echo "$res" > /verif/seeded/$name/checks.log
python3 - "$name" <<PY
import json,sys
name=sys.argv[1]
m=json.load(open(f'/verif/seeded/{name}/meta.json'))
checks=open(f'/verif/seeded/{name}/checks.log').read().strip().splitlines()
m['checks']=checks
m['caught_by']=[l.split()[0] for l in checks if ' rc=1 ' in l+' ']
json.dump(m,open(f'/verif/seeded/{name}/meta.json','w'),indent=1)
print(name,'caught_by',m['caught_by'])
for l in checks: print('  ',l[:220])
PY
