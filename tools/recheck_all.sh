#!/bin/bash
# Regression over every kept seeded change: applies each to a repository tree (the snapshot of `vp run
# --with-repo`, or /repo when RECHECK_REPO=/repo and the tree is clean), runs the broken property's own check
# for a few seconds and reports caught / MISSED. Results go to stdout only (meta.json files are not touched).
cd "$(dirname "$0")/.."
repo="${VP_RUN_REPO:-${RECHECK_REPO:-/repo}}"
export VERIF_REPO="$repo" VERIF_EVIDENCE_DIR="$(pwd)/.work/evidence-scratch"
secs="${RECHECK_SECONDS:-10}"
miss=0
for d in seeded/*/; do
  name=$(basename "$d"); prop=${name%%-*}
  [ -f "$d/patch.diff" ] || continue
  if [ -n "$(git -C "$repo" status --porcelain --untracked-files=no)" ]; then echo "$repo is dirty"; exit 2; fi
  git -C "$repo" apply "$(pwd)/$d/patch.diff" 2>/dev/null || { echo "NOAPPLY $name"; continue; }
  out=$(VERIF_SECONDS=$secs VERIF_WORKERS=${RECHECK_WORKERS:-8} ./check "$prop" quick 2>&1); rc=$?
  rules=$(echo "$out" | grep -E "^  rule=" | awk '{print $1}' | sort -u | tr '\n' ' ')
  if [ $rc -eq 1 ]; then echo "caught $name $rules"; else miss=$((miss+1)); echo "MISSED $name rc=$rc $(echo "$out" | tail -1 | cut -c1-120)"; fi
  git -C "$repo" checkout -- .
done
echo "recheck done, missed=$miss"
