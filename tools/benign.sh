#!/bin/bash
# False-alarm wave: applies each property-preserving change of benign/*.diff to a repository tree, runs every
# check for a few seconds and expects exit 0 everywhere. Meant for `vp run --with-repo -- tools/benign.sh`
# (uses the snapshot in $VP_RUN_REPO; /repo is not touched) or, with BENIGN_REPO=/repo, on the clean tree itself.
cd "$(dirname "$0")/.."
repo="${VP_RUN_REPO:-${BENIGN_REPO:-/repo}}"
export VERIF_REPO="$repo" VERIF_EVIDENCE_DIR="$(pwd)/.work/evidence-scratch"
secs="${BENIGN_SECONDS:-8}"
props="${BENIGN_PROPS:-C01 C02 C03 C04 C05 C06 C07 C08 C09 C10 C11 C12 C13 C14 C15 C16 C17}"
bad=0
for d in ${BENIGN_PATCHES:-benign/*.diff}; do
  name=$(basename "$d" .diff)
  if [ -n "$(git -C "$repo" status --porcelain --untracked-files=no)" ]; then echo "$repo is dirty"; exit 2; fi
  git -C "$repo" apply "$(pwd)/$d" || { echo "$name: patch does not apply"; bad=1; continue; }
  for p in $props; do
    case "$d:$p" in *z-*:C0[1-9]|*z-*:C1[3457]) continue;; esac
    out=$(VERIF_SECONDS=$secs VERIF_WORKERS=${BENIGN_WORKERS:-8} ./check "$p" quick 2>&1); rc=$?
    if [ $rc -ne 0 ]; then bad=1; echo "ALARM $name $p rc=$rc"; echo "$out" | grep -A3 "VIOLATION\|MACHINERY" | head -20 | cut -c1-300; else echo "quiet $name $p"; fi
  done
  git -C "$repo" checkout -- .
done
echo "benign wave done, bad=$bad"
exit $bad
