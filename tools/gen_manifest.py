#!/usr/bin/env python3
import json, subprocess
def chk(pid, engine, text, note, technique, ref):
    return {"property_id":pid,"quick_cmd":f"./check {pid} quick","thorough_cmd":f"./check {pid} thorough",
            "evidence_file":f"evidence/{pid}.json","replay_cmd_template":"./check --replay {path}","engine":engine,
            "level_claimed":{"category":"exploration","text":text,"design_ref":ref},"level_note":note,"technique":technique}
note_cache="Preemption at the verif yield sites (before every outermost lock, after the last unlock, around every channel hand-off) and at the points cmd/autoyield inserts mechanically into a scratch copy of the tree at build time (before every mutex and atomic operation of the root package, never while a lock is held; if that copy does not build the plain tree is used and the evidence says so); go1.26.8 testing/synctest fake clock; sync.Pool of ringBuffer replaced by a simulator-owned stripe set; seeded sampling of schedules, clock advances and faults - evidence, not proof."
note_store="Single-task histories: the simulator owns page size, backing store (calloc / mmap file in a scratch directory), growth, migration and clean close+reopen instants; real page cache, no torn writes (none are claimed); seeded sampling - evidence, not proof."
note_alloc="Preemption only at the verif yield sites around the packed atomic add and the slow-path mutex of z.Allocator; seeded sampling of interleavings - evidence, not proof. Non-termination is detected by a step cap and a wall-clock watchdog."
tech="deterministic simulation: seeded scheduler over real goroutines (yield-site hooks + testing/synctest), simulated clock, fault injection"
tech_store="deterministic simulation (degenerate single-task form): seeded histories with simulator-owned storage environment and restart (close+reopen) injection, step-by-step reference model"
checks=[
 chk("C01","cachesim","Seeded search over schedules, key sets (incl. engineered primary-hash collisions, string/[]byte/int keys) and capacities; every Get hit is checked for provenance against the unique value written by each Set.",note_cache,tech+"; history rule over unique values","DESIGN.md P-C01"),
 chk("C02","cachesim","Seeded search over interleavings of overwrites, deletes, evictions, sweeps and Clear on very few keys; every OnExit is sequence-stamped and no later Get may return that value.",note_cache,tech+"; history rule OnExit vs later Get","DESIGN.md P-C02"),
 chk("C03","cachesim","After every admission decision of the applier (white box, under the seeded schedule) used <= MaxCost and used == sum of accounted costs; at scheduler-made quiescent points RemainingCost == MaxCost - sum, >= 0 in cost-monotone runs.",note_cache,tech+"; invariant after every applier admission + quiescent-point white-box checks","DESIGN.md P-C03"),
 chk("C04","cachesim","Per-value ledger over all callbacks in seeded concurrent histories with drops, rejections, evictions, expiry, Clear and Close at arbitrary points: exactly one OnExit per accepted value, deadlines at Clear/Close, none for refused values.",note_cache,tech+"; per-value ledger with Clear/Close deadlines","DESIGN.md P-C04"),
 chk("C05","cachesim","Seeded search over applier lag and buffered inserts before a Del; history rule (Del, Wait, Get) plus release of deleted values.",note_cache,tech+"; history rule over Del/Wait/Get","DESIGN.md P-C05"),
 chk("C06","cachesim","Single-client histories with everything fitting (MaxCost 2^40, or exactly the sum of the largest cost each key ever carries), applier lag chosen by the scheduler; every read compared with a partial reference model (Absent/Pending/Resident/Unknown), plus the FIFO rule for Wait.",note_cache,tech+"; refinement against a partial reference map","DESIGN.md P-C06"),
 chk("C07","cachesim","Simulated clock moved by the scheduler, also inside operations and to expiration-1ns / exactly / +1ns; interval-bounded expiry oracle (late rule on all histories, early rule and GetTTL bounds against the reference model).",note_cache,tech+"; interval-bounded expiry oracle on the simulated clock","DESIGN.md P-C07"),
 chk("C08","cachesim","The same simulator built with -race: hand-offs of the scheduler are hidden from the detector (RaceDisable/norace), so tsan sees only ristretto's own synchronisation and reports unordered conflicting accesses even on a serial, replayable schedule; panics, simulator-level deadlocks, bounded progress under fair scheduling and a wall-clock spin watchdog decide the other clauses.",note_cache+" The race clause inherits tsan's bounded access history.",tech+"; race detector inside deterministic runs + deadlock / bounded-progress rules","DESIGN.md P-C08"),
 chk("C09","cachesim","Every admission decision observed under the policy lock: resident set, estimates, sampled candidates (through the map-order seam) and victims; rules R1-R3 of the discipline checked per decision, map enumeration order is a simulator decision.",note_cache,tech+"; per-decision check from seam-observed samples and white-box estimates","DESIGN.md P-C09"),
 chk("C10","zsim","Seeded histories of Set/DeleteBelow/IterateKV rewrites/Reset on calloc- and mmap-backed trees with simulator-chosen page sizes (80 bytes .. OS page), keys clustered at node boundaries, values unrelated to key order; step-by-step comparison with a reference map.",note_store,tech_store,"DESIGN.md P-C10"),
 chk("C11","zsim","Seeded histories over calloc, mmap and auto-mmap buffers (threshold early/late/never), raw and slice regimes, lengths around the remaining capacity, slice counts around the sorter's chunking, several comparison functions, max-size limits; reference byte/slice model.",note_store,tech_store,"DESIGN.md P-C11"),
 chk("C12","zsim","2-6 real goroutines allocating under the seeded scheduler with yield sites around the atomic add and the slow path, sizes straddling chunk boundaries, Reset/TrimTo/replay phases; disjointness, canary contents, alignment, zeroing, replay without new memory, termination.",note_alloc,tech+"; interval-disjointness + canary contents under scheduled interleavings","DESIGN.md P-C12"),
 chk("C13","cachesim","At scheduler-made quiescent points of seeded concurrent histories the white-box key set of the map equals that of the cost table; IterValues in an exclusive section yields exactly the unexpired values and honours stop; emptying epilogues restore full capacity.",note_cache,tech+"; white-box agreement at quiescent points","DESIGN.md P-C13"),
 chk("C14","cachesim","Sweeps racing re-writes under the seeded scheduler and clock: every sweep eviction must be of a TTL value whose own expiration has passed; an epilogue advances the clock far beyond all expirations while writing and checks everything expired was reclaimed.",note_cache,tech+"; ledger of sweep removals vs the value's own expiration + eventual-reclaim epilogue","DESIGN.md P-C14"),
 chk("C15","cachesim","Close issued while clients are idle or blocked in Wait (on their marker or on the full write buffer), at arbitrary points of histories with buffered items; post-Close probes, goroutine accounting; after Clear: white-box emptiness, capacity, metrics and sketch freshness, release of every Wait that was blocked when the Clear was invoked, and a follow-up program whose reads are decided by the reference model of a new cache.",note_cache,tech+"; post-Close/Clear probes and task accounting","DESIGN.md P-C15"),
 chk("C16","zsim","The C10 generator on a persistent tree with clean close+reopen injected at drawn points (biased to follow DeleteBelow); contents, IterateKV and Stats compared across reopen, history continues on the reopened tree.",note_store,tech_store+"; restart injection","DESIGN.md P-C16"),
 chk("C17","cachesim","Harness-counted calls vs Metrics counters at quiescent points of seeded concurrent histories (clean-Clear epochs), with drops, policy stalls and stripe loss.",note_cache,tech+"; conservation equations at quiescent points","DESIGN.md P-C17"),
]
na=[
 {"property_id":"C18","reason":"pure function of an access sequence and a table size: no schedule, clock, fault or interleaving in it (the sketch is only touched under the policy lock); deciding it is input enumeration, not simulation"},
 {"property_id":"C19","reason":"pure function of (size, locations, hash set); no concurrency, time or I/O (the JSON round trip is in memory); not a simulation target"},
 {"property_id":"C20","reason":"pure function of a slice and a key (plus the memory behind it); no schedule, clock or fault; not a simulation target"},
]
import os
claimed=set(os.environ.get('CLAIM','C01 C02 C03 C04 C05 C06 C07 C08 C09 C10 C11 C12 C13 C14 C15 C16 C17').split())
pending={"C08":"race-detector flavour of the simulator not finished yet (planned: P-C08)"}
checks=[c for c in checks if c['property_id'] in claimed]
for p,r in pending.items():
    if p not in claimed: na.append({"property_id":p,"reason":r})
hooks=subprocess.run("git -C /repo log --format=%h --grep='^Add verification hooks' --grep='^verif hooks' ",shell=True,capture_output=True,text=True).stdout.split()
m={"version":1,
 "setup_cmd":"./check --build",
 "hooks":{"guard":"verif","enable":"go1.26.8 test -c -tags verif (GOTOOLCHAIN=local GOFLAGS=-mod=mod) from /verif/sim with replace github.com/dgraph-io/ristretto/v2 => /repo",
   "baseline_off_cmd":"cd /repo && go test -mod=mod -vet=off -count=1 -timeout 25m ./...",
   "source_commits":hooks[::-1],"add_only":False},
 "engines":[
  {"name":"cachesim","path":"sim/cachesim","serves_properties":[c['property_id'] for c in checks if c['engine']=='cachesim'],"kind_free_text":"deterministic simulation of the real cache: seeded scheduler over real goroutines parked at yield-site hooks (hand-placed behind the verif tag, plus mechanically inserted ones in a scratch copy) inside a testing/synctest bubble, simulated clock, gated selects, seamed map iteration, fault injection (applier/policy stalls, tiny buffers, clock jumps, stripe loss, Clear/Close)"},
  {"name":"zsim","path":"sim/zsim","serves_properties":[c['property_id'] for c in checks if c['engine']=='zsim'],"kind_free_text":"z engines: allocator under the same seeded scheduler (real goroutines, yield sites in Allocate); storage engine = single-task seeded histories over z.Tree / z.Buffer with simulator-owned page size, backing store, growth and clean close+reopen, compared step by step with a reference model"}],
 "checks":checks,
 "notes":"hooks.add_only=false: five select case headers (verifGate/verifGateTick) and four map range headers (verifRange) were rewritten, everything else is added lines; see DESIGN.md S-HOOKS. Exit codes: 0 held, 1 violation (VIOLATION line with replay file), 2 machinery trouble. Genuine defects found and repaired are listed in known_findings.json as fixed entries.",
 "not_applicable":na}
json.dump(m,open('/verif/MANIFEST.json','w'),indent=1)
print("claimed",[c['property_id'] for c in checks],"hooks",hooks[::-1])
