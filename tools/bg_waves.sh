#!/bin/bash
# background: deliberate breakages (with replay round trips), then the property-preserving changes, on a repo snapshot
cd "$(dirname "$0")/.."
echo "=== mutants"; ROUNDTRIP=1 SECS=${SECS:-10} python3 tools/mutate.py 2>&1 | cut -c1-200
echo "=== benign"; BENIGN_PATCHES="benign/*.diff benign/agents/*.diff" BENIGN_SECONDS=8 tools/benign.sh 2>&1 | grep -v "^quiet" | cut -c1-300
