#!/bin/bash
# long determinism self-test for background runs (vp run -- tools/selftest_big.sh)
cd "$(dirname "$0")/.."
for i in 1 2 3; do VERIF_SELFTEST_RUNS=${RUNS:-800} ./check --selftest 2>&1 | tail -6; done
