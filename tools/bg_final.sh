#!/bin/bash
# background: regression over every seeded change, then the property-preserving changes, on a repo snapshot
cd "$(dirname "$0")/.."
echo "=== regression"; RECHECK_SECONDS=${RECHECK_SECONDS:-10} tools/recheck_all.sh 2>&1 | grep -v "^caught" | cut -c1-250
echo "=== benign"; BENIGN_PATCHES="benign/*.diff benign/agents/*.diff" BENIGN_SECONDS=8 tools/benign.sh 2>&1 | grep -v "^quiet" | cut -c1-300
