#!/bin/bash
# Background sweep: every check in thorough tier, several seeds. Meant for `vp run --with-repo -- tools/sweep.sh`:
# builds against the repository snapshot in $VP_RUN_REPO, so /repo can be edited meanwhile.
cd "$(dirname "$0")/.."
export VERIF_REPO="${VP_RUN_REPO:-/repo}"
secs="${SWEEP_SECONDS:-300}"
for seed in ${SWEEP_SEEDS:-11 12}; do
  for p in C01 C02 C03 C04 C05 C06 C07 C08 C09 C10 C11 C12 C13 C14 C15 C16 C17; do
    echo "=== $p seed=$seed $(date +%T)"
    VERIF_SEED=$seed VERIF_SECONDS=$secs VERIF_WORKERS=${SWEEP_WORKERS:-8} ./check $p thorough 2>&1 | tail -12 | cut -c1-400
  done
done
