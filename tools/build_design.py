#!/usr/bin/env python3
"""Regenerates sections 16-19 of DESIGN.md from tools/design_tail.md and the seeded/*/meta.json files."""
import json, glob, os, re
root='/verif'
rows=[]
for f in sorted(glob.glob(root+'/seeded/*/meta.json')):
    m=json.load(open(f))
    c=m['confirmed']
    conf='yes' if all(c.values()) else 'NO: '+json.dumps(c)
    checks=[]
    for l in m['checks']:
        parts=l.split()
        if len(parts)<2: continue
        pid, rc = parts[0], parts[1]
        rules=' '.join(p.replace('rule=','') for p in parts[2:] if p.startswith('rule='))
        checks.append(f"{pid}: {'caught ('+rules+')' if rc=='rc=1' else ('missed' if rc=='rc=0' else rc)}")
    rows.append(f"| {m['name']} | {m['property']} | {m['needs_to_manifest']} | {conf} | {'; '.join(checks)} |")
table="| seeded change | breaks | needs, in order to manifest | confirmed here | checks run against it (12 s budget each) |\n|---|---|---|---|---|\n"+"\n".join(rows)
if not rows: table="(none kept yet)"
tail=open(root+'/tools/design_tail.md').read().replace('@SEEDED_TABLE@',table)
s=open(root+'/DESIGN.md').read()
i=s.index("## 16. ")
s=s[:i]+tail
# contents list
s=re.sub(r"15\. Layout, commands, cost \(S-LAYOUT\)\n16\. Corrections log\n", "15. Layout, commands, cost (S-LAYOUT)\n16. As built: differences from the design\n17. Findings: genuine defects, repaired or recorded\n18. Sensitivity: deliberate breakages and seeded changes\n19. Corrections log (false alarms and what was done about them)\n", s, count=1)
s=s.replace("## 15. Layout, commands, cost (S-LAYOUT)\n16. Corrections log\n","## 15. Layout, commands, cost (S-LAYOUT)\n")
s=s.replace("""Status: design only (written before any framework code). Everything marked
"spike" below was tried in a throw-away copy under /tmp and deleted again; the
numbers quoted from spikes are measurements, not estimates.""","""Status: sections 1-15 are the design as written before any framework code
(everything marked "spike" was tried in a throw-away copy under /tmp and
deleted again; the numbers quoted from spikes are measurements). The machinery
has since been built: **section 16 (As built)** records where the
implementation differs from the design, **section 17 (Findings)** the genuine
defects it found and how they were disposed of, **section 18** the sensitivity
results (deliberate breakages and independently seeded changes, and which check
catches which), and **section 19 (Corrections log)** every false alarm met
during construction and how the machinery was corrected. Where sections 1-15
and 16-19 disagree, 16-19 describe what is in the tree.""")
open(root+'/DESIGN.md','w').write(s)
print("DESIGN.md rebuilt:", len(rows), "seeded rows")
