#!/usr/bin/env python3
"""Generates /verif/benign/*.diff: changes to ristretto under which every listed property still holds
(tuning constants, reordering of independent steps, behaviour the properties leave open). The checks must
stay quiet on each of them (tools/benign.sh). Run in a scratch worktree: gen_benign.py /tmp/wt-benign"""
import subprocess, sys, os
wt = sys.argv[1]
out = '/verif/benign'
def sh(c): return subprocess.run(c, shell=True, cwd=wt, capture_output=True, text=True)
P = []
def patch(name, why, edits):
    P.append((name, why, edits))

patch('shards-64', 'number of map shards is a tuning constant',
      [('store.go', 'const numShards uint64 = 256', 'const numShards uint64 = 64')])
patch('shards-1024', 'number of map shards is a tuning constant',
      [('store.go', 'const numShards uint64 = 256', 'const numShards uint64 = 1024')])
patch('lfu-sample-3', 'eviction sample size is a tuning constant; C09 speaks of "the candidates sampled"',
      [('policy.go', '\tlfuSample = 5', '\tlfuSample = 3')])
patch('lfu-sample-9', 'eviction sample size is a tuning constant',
      [('policy.go', '\tlfuSample = 5', '\tlfuSample = 9')])
patch('bucket-2s', 'expiry bucket width is a tuning constant',
      [('ttl.go', 'bucketDurationSecs = int64(5)', 'bucketDurationSecs = int64(2)')])
patch('bucket-13s', 'expiry bucket width is a tuning constant',
      [('ttl.go', 'bucketDurationSecs = int64(5)', 'bucketDurationSecs = int64(13)')])
patch('setbuf-default-512', 'default write-buffer size is a tuning constant',
      [('cache.go', '\tsetBufSize = 32 * 1024', '\tsetBufSize = 512')])
patch('del-skips-nil-onexit', 'Del of an absent key no longer reports the zero value (nobody stored it; properties speak of stored values)',
      [('cache.go', '\tverifYield(verifSiteDelDetached, keyHash)\n\tc.onExit(prev)\n', '\tverifYield(verifSiteDelDetached, keyHash)\n\tif any(prev) != any(zeroValue[V]()) {\n\t\tc.onExit(prev)\n\t}\n')])
patch('inchits-before-room', 'the newcomer estimate is read earlier, still under the policy lock',
      [('policy.go', '\troom := p.evict.roomLeft(cost)\n\tif room >= 0 {', '\tincHits := p.admit.Estimate(key)\n\troom := p.evict.roomLeft(cost)\n\tif room >= 0 {'),
       ('policy.go', '\t// incHits is the hit count for the incoming item.\n\tincHits := p.admit.Estimate(key)\n', '')])
patch('close-stops-ticker-first', 'Close stops the cleanup ticker before clearing',
      [('cache.go', '\tc.Clear()\n\n\t// Block until processItems goroutine is returned.\n\tverifYield(verifSiteCloseStart, 0)', '\tc.cleanupTicker.Stop()\n\tc.Clear()\n\n\t// Block until processItems goroutine is returned.\n\tverifYield(verifSiteCloseStart, 0)'),
       ('cache.go', '\tc.cachePolicy.Close()\n\tc.cleanupTicker.Stop()\n', '\tc.cachePolicy.Close()\n')])
patch('get-expiry-under-lock', 'lockedMap.get evaluates conflict and expiry while still holding the read lock',
      [('store.go', '''	m.RLock()
	item, ok := m.data[key]
	m.RUnlock()
	if !ok {
		return zeroValue[V](), false
	}
	if conflict != 0 && (conflict != item.conflict) {
		return zeroValue[V](), false
	}

	// Handle expired items.
	if !item.expiration.IsZero() && time.Now().After(item.expiration) {
		return zeroValue[V](), false
	}
	return item.value, true''', '''	m.RLock()
	defer m.RUnlock()
	item, ok := m.data[key]
	if !ok {
		return zeroValue[V](), false
	}
	if conflict != 0 && (conflict != item.conflict) {
		return zeroValue[V](), false
	}

	// Handle expired items.
	if !item.expiration.IsZero() && time.Now().After(item.expiration) {
		return zeroValue[V](), false
	}
	return item.value, true''')])
patch('store-clear-deletes-in-place', 'lockedMap.Clear deletes the entries instead of allocating a new map',
      [('store.go', '\tm.data = make(map[uint64]storeItem[V])\n}', '\tclear(m.data)\n}')])
patch('victims-prealloc', 'victims slice pre-allocated',
      [('policy.go', 'victims := make([]*Item[V], 0)', 'victims := make([]*Item[V], 0, lfuSample)')])
patch('ttl-add-lock-first', 'expirationMap.add computes the bucket under the lock',
      [('ttl.go', '''	bucketNum := storageBucket(expiration)
	m.Lock()
	defer m.Unlock()
	bucketNum = m.sweepableBucket(bucketNum)''', '''	m.Lock()
	defer m.Unlock()
	bucketNum := m.sweepableBucket(storageBucket(expiration))''')])

patch('applier-rejects-oversized-itself', 'the applier turns an item larger than the whole cache away itself, before asking the policy (C09 allows that cause)',
      [('cache.go', """				verifEvent(verifEvApplierNew, i.Key, i.Cost, 0)
				victims, added := c.cachePolicy.Add(i.Key, i.Cost)""", """				verifEvent(verifEvApplierNew, i.Key, i.Cost, 0)
				if i.Cost > c.cachePolicy.MaxCost() {
					c.onReject(i)
					verifEvent(verifEvApplierDone, i.Key, int64(i.flag), 0)
					continue
				}
				victims, added := c.cachePolicy.Add(i.Key, i.Cost)""")])
patch('applier-rejects-resident-itself', 'the applier turns a newcomer whose key is already accounted away itself (after updating its cost as Add would), before asking the policy',
      [('cache.go', """				verifEvent(verifEvApplierNew, i.Key, i.Cost, 0)
				victims, added := c.cachePolicy.Add(i.Key, i.Cost)""", """				verifEvent(verifEvApplierNew, i.Key, i.Cost, 0)
				if i.Cost <= c.cachePolicy.MaxCost() && c.cachePolicy.Has(i.Key) {
					c.cachePolicy.Update(i.Key, i.Cost)
					c.onReject(i)
					verifEvent(verifEvApplierDone, i.Key, int64(i.flag), 0)
					continue
				}
				victims, added := c.cachePolicy.Add(i.Key, i.Cost)""")])

for name, why, edits in P:
    sh('git checkout -q -- .')
    ok = True
    for f, a, b in edits:
        p = os.path.join(wt, f)
        s = open(p).read()
        if s.count(a) != 1:
            print('!!', name, f, 'anchor count', s.count(a)); ok = False; break
        s = s.replace(a, b)
        open(p, 'w').write(s)
    if not ok: continue
    sh('gofmt -w *.go z/*.go')
    r = sh('export GOFLAGS=-mod=mod GOPROXY=off GOSUMDB=off GOTOOLCHAIN=local; go1.26.8 build ./... && go1.26.8 build -tags verif ./... && go1.26.8 vet -tags verif . 2>&1 | head -3')
    if r.returncode != 0:
        print('!! build', name, r.stderr[:400]); continue
    d = sh('git diff').stdout
    open(f'{out}/{name}.diff', 'w').write('# ' + why + '\n' + d)
    print('ok', name, len(d.splitlines()))
sh('git checkout -q -- .')
