#!/bin/bash
# repeats the cache engine's self-test job at GOMAXPROCS=16 until a worker fails (hunting a rare hang)
cd "$(dirname "$0")/.."
VERIF_BUILD_DIR=$(pwd)/.build/keep ./check --build >/dev/null 2>&1
mkdir -p .work/hunt
cat > .work/hunt/job.json <<J
{"mode":"batch","prop":"C08","profiles":["mixed","collide","overwrite","capacity","delete","single","singlettl","ttl","rewrite","close","metrics","agree"],"seed":4242,"start":0,"stride":1,"max_runs":${RUNS:-800},"out":"$(pwd)/.work/hunt/out.jsonl","digest":true}
J
for i in $(seq 1 ${ITER:-60}); do
  for w in 1 2 3 4; do
    ( rm -f .work/hunt/out$w.jsonl; sed "s#out.jsonl#out$w.jsonl#" .work/hunt/job.json > .work/hunt/job$w.json
      GOMAXPROCS=${PROCS:-16} VERIF_JOB=$(pwd)/.work/hunt/job$w.json .build/keep/cachesim.test -test.run '^TestWorker$' -test.timeout 0 > .work/hunt/log$w.txt 2>&1 || { echo "FAILED iter $i worker $w"; head -c 60000 .work/hunt/log$w.txt; } ) &
  done
  wait
  echo "iter $i done"
done
