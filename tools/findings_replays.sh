#!/bin/bash
# Regenerates /verif/findings/<F>.json: for every repaired defect, revert its fix in /repo's working tree,
# run the property's check until it reports the violation, keep the minimised replay file, restore the tree.
cd /verif
export VERIF_EVIDENCE_DIR=/verif/.work/evidence-scratch
gen() { # name commit prop rule
  name=$1; commit=$2; prop=$3; rule=$4
  if [ -n "$(git -C /repo status --porcelain --untracked-files=no)" ]; then echo "/repo dirty"; exit 2; fi
  if ! git -C /repo revert --no-commit $commit >/dev/null 2>&1; then
    # later hook commits touch the same lines: use the hand-resolved revert kept beside this script
    git -C /repo reset -q --hard HEAD
    short=${name%%-*}
    if [ -f /verif/tools/revert_$short.diff ] && git -C /repo apply /verif/tools/revert_$short.diff; then :; else echo "$name: cannot revert $commit"; git -C /repo reset -q --hard HEAD; return; fi
  fi
  out=$(VERIF_SECONDS=${SECS:-15} ./check $prop quick 2>&1)
  git -C /repo reset -q --hard HEAD
  f=$(echo "$out" | grep -B0 -A1 "^VIOLATION" | grep -A1 "replay=" | awk '/^VIOLATION/{split($3,a,"="); p=a[2]} /rule='$rule'/{print p; exit}')
  if [ -z "$f" ]; then f=$(echo "$out" | grep "^VIOLATION" | head -1 | sed 's/.*replay=//'); fi
  if [ -n "$f" ] && [ -f "$f" ]; then cp "$f" findings/$name.json; echo "$name: $(basename $f) -> findings/$name.json"; else echo "$name: NOT reproduced"; echo "$out" | tail -3; fi
}
gen F1-sweep-removes-rewritten-entry 64ec5d5 C14 sweep-evicted
gen F2-late-ttl-insert-never-swept b4a1bcd C14 expired-never-reclaimed
gen F3-deletebelow-keeps-leaf-max e6b3fa1 C10 deletebelow-kept
gen F4-trimto-frees-first-chunk 1e3d1cc C12 hang
gen F5-reopen-at-page-frontier cc01d31 C16 panic
gen F6-stale-nodes-after-remap 4274303 C10 panic
gen F7-internal-cost-overflow 902a609 C03 too-big-admitted
gen F8-update-cost-wraps-counter 7a28955 C03 over-capacity
gen F9-trimto-releases-buffer-in-use 1a240fc C12 hang
