#!/bin/bash
# usage: confirm_seeded.sh <Cxx>  -- confirms an agent's seeded change using /tmp/wt-Cxx/seeded/{patch.diff,demo_test.go}
# as the source of truth (the worktree's tracked files are reset first; git stash is never used: it is shared
# between worktrees).
# 1. demo fails with the change  2. full suite passes with the change (demo aside)  3. demo passes without it
set -u
id="$1"; wt=/tmp/wt-$id
cd $wt || exit 2
[ -f seeded/patch.diff ] || { echo "no seeded/patch.diff"; exit 2; }
rm -rf /tmp/aside-$id; mkdir -p /tmp/aside-$id; cp -r seeded /tmp/aside-$id/
git checkout -q -- . ; rm -rf seeded
# where does the demo go?
pkgline=$(grep -m1 '^package ' /tmp/aside-$id/seeded/demo_test.go | awk '{print $2}')
demodir=$wt; [ "$pkgline" = "z" ] && demodir=$wt/z; [ "$pkgline" = "simd" ] && demodir=$wt/z/simd
find $wt -name 'seeded_demo_test.go' -delete
names=$(grep -o 'func Test[A-Za-z0-9_]*' /tmp/aside-$id/seeded/demo_test.go | sed 's/func //' | paste -sd'|')
echo "demo package: $pkgline dir: $demodir tests: $names"
git apply /tmp/aside-$id/seeded/patch.diff || { echo "PATCH DOES NOT APPLY"; exit 2; }
echo "== full suite with the change (must PASS)"
go test -mod=mod -vet=off -count=1 -timeout 25m ./... 2>&1 | grep -v "no test files" | tail -5
cp /tmp/aside-$id/seeded/demo_test.go $demodir/seeded_demo_test.go
echo "== demo with the change (must FAIL)"
(cd $demodir && go test -mod=mod -vet=off -count=1 -run "^($names)\$" . 2>&1 | tail -4)
echo "== demo without the change (must PASS)"
git apply -R /tmp/aside-$id/seeded/patch.diff
(cd $demodir && go test -mod=mod -vet=off -count=1 -run "^($names)\$" . 2>&1 | tail -3)
git apply /tmp/aside-$id/seeded/patch.diff
cp -r /tmp/aside-$id/seeded $wt/
git -C $wt status --short | head
