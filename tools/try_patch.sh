#!/bin/bash
# usage: try_patch.sh <patch.diff> <secs> <prop> [<prop> ...]
# Applies a seeded change to /repo's working tree, runs the given checks, restores the tree.
set -u
patch="$1"; secs="$2"; shift 2
cd /repo || exit 2
if [ -n "$(git status --porcelain --untracked-files=no)" ]; then echo "/repo is dirty"; exit 2; fi
git apply "$patch" || { echo "patch does not apply"; exit 2; }
trap 'git -C /repo checkout -- . >/dev/null 2>&1' EXIT
cd /verif
export VERIF_EVIDENCE_DIR=/verif/.work/evidence-scratch
for p in "$@"; do
  out=$(VERIF_SECONDS=$secs ./check "$p" quick 2>&1); rc=$?
  rules=$(echo "$out" | grep -E "^  rule=" | awk '{print $1}' | sort -u | tr '\n' ' ')
  echo "$p rc=$rc $rules| $(echo "$out" | tail -1 | cut -c1-160)"
done
