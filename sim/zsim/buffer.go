package zsim

import (
	"bytes"
	"fmt"
	"math/rand/v2"
	"os"

	"github.com/dgraph-io/ristretto/v2/z"

	"verifsim/core"
)

// Buffer operations.
const (
	BWrite = iota
	BAllocate
	BAllocateOffset
	BGrow
	BReset
	BWriteSlice
	BSliceAllocate
	BCheckSlices // SliceIterate / Slice / SliceOffsets against the model
	BSort        // SortSlice with Less
	BSortBetween // SortSliceBetween over slices [A, B)
	BWriteMany   // N slices with lengths from a small range
	NumBOps
	// BHuge (only in Huge plans): Allocate (A=0) or AllocateOffset (A=1) of N > 1 GB bytes
	BHuge = NumBOps
)

var BOpNames = []string{"Write", "Allocate", "AllocateOffset", "Grow", "Reset", "WriteSlice", "SliceAllocate", "CheckSlices", "SortSlice", "SortSliceBetween", "WriteSlices(many)", "Allocate(>1GB)"}

// Less kinds.
const (
	LessBytes = iota
	LessReverse
	LessLen
	LessLastByte
	LessFalse
	LessFirstByteNonStrict // a[0] <= b[0]: not a strict order
	NumLess
)

type BOp struct {
	K    int    `json:"k"`
	N    int    `json:"n,omitempty"`
	Seed uint64 `json:"seed,omitempty"` // content pattern
	Less int    `json:"less,omitempty"`
	A    int    `json:"a,omitempty"`
	B    int    `json:"b,omitempty"`
}

// Backing modes.
const (
	ModeCalloc = iota
	ModeTmpMmap
	ModeAutoMmap
	// ModePersistent: NewBufferPersistent on a named file that may exist already
	// with a size below or above the requested capacity (left there by an
	// earlier session; the buffer itself does not remember an offset)
	ModePersistent
)

type BufPlan struct {
	Mode      int   `json:"mode"`
	InitCap   int   `json:"init_cap"`
	Threshold int   `json:"threshold,omitempty"`
	PreSize   int   `json:"pre_size,omitempty"` // ModePersistent: size of the file found at the path (0: none)
	MaxSize   int   `json:"max_size,omitempty"`
	Slices    bool  `json:"slices"` // slice regime (WriteSlice...) or raw regime
	// Huge: raw regime on a file-backed buffer with ONE allocation above the
	// 1 GB growth step (BHuge); the file is sparse and only the first and last
	// bytes of that allocation are touched, so the run costs a few pages
	Huge bool `json:"huge,omitempty"`
	Ops       []BOp `json:"ops"`
}

func genBuffer(seed uint64, deep bool) *BufPlan {
	r := core.NewRand(seed, 1)
	p := &BufPlan{}
	p.Mode = r.IntN(3)
	if r.IntN(25) == 0 {
		return genBufferHuge(r, p)
	}
	if r.IntN(6) == 0 {
		p.Mode = ModePersistent
		p.PreSize = []int{0, 0, 64, 72, 128, 1000, 4096, 4104, 70000}[r.IntN(9)]
	}
	p.InitCap = []int{0, 1, 63, 64, 65, 100, 256, 1024, 4096}[r.IntN(9)]
	if p.Mode == ModeAutoMmap {
		p.Threshold = []int{1, 64, 128, 200, 1000, 4096, 100000, 1 << 30}[r.IntN(8)]
	}
	p.Slices = r.IntN(2) == 0
	if r.IntN(4) == 0 {
		p.MaxSize = []int{1, 8, 9, 64, 100, 128, 500, 1000, 5000, 20000}[r.IntN(10)]
	}
	nops := 5 + r.IntN(60)
	if deep {
		nops = 60 + r.IntN(240)
	}
	// model of the used length (to draw lengths around the remaining capacity)
	cur := p.InitCap
	if cur < 64 {
		cur = 64
	}
	off := 8
	drawLen := func() int {
		rem := cur - off
		if cur > 150000 {
			return r.IntN(40) // keep runs small once the buffer has grown a few times
		}
		switch r.IntN(10) {
		case 0:
			return 0
		case 1:
			return 1
		case 2:
			return max(rem-1, 0)
		case 3:
			return max(rem, 0)
		case 4:
			return rem + 1
		case 5:
			return cur + 1 + r.IntN(64)
		case 6:
			return 8
		}
		return r.IntN(40)
	}
	track := func(n int) {
		if off+n >= cur {
			cur += cur + n
		}
		off += n
	}
	if !p.Slices {
		for len(p.Ops) < nops {
			switch x := r.IntN(100); {
			case x < 40:
				n := drawLen()
				p.Ops = append(p.Ops, BOp{K: BWrite, N: n, Seed: r.Uint64()})
				track(n)
			case x < 60:
				n := drawLen()
				p.Ops = append(p.Ops, BOp{K: BAllocate, N: n, Seed: r.Uint64()})
				track(n)
			case x < 80:
				n := drawLen()
				p.Ops = append(p.Ops, BOp{K: BAllocateOffset, N: n, Seed: r.Uint64()})
				track(n)
			case x < 92:
				n := drawLen()
				p.Ops = append(p.Ops, BOp{K: BGrow, N: n})
				if off+n >= cur {
					cur += cur + n
				}
			default:
				p.Ops = append(p.Ops, BOp{K: BReset})
				off = 8
			}
		}
		return p
	}
	count := 0
	for len(p.Ops) < nops {
		switch x := r.IntN(100); {
		case x < 35:
			n := drawLen()
			if r.IntN(3) == 0 {
				n = r.IntN(12)
			}
			p.Ops = append(p.Ops, BOp{K: BWriteSlice, N: n, Seed: r.Uint64()})
			track(8 + n)
			count++
		case x < 50:
			n := drawLen()
			p.Ops = append(p.Ops, BOp{K: BSliceAllocate, N: n, Seed: r.Uint64()})
			track(8 + n)
			count++
		case x < 60:
			// many small slices: counts around the 1024-slice chunking of the sorter
			target := []int{1, 2, 3, 10, 1022, 1023, 1024, 1025, 2047, 2048, 2049, 3000}[r.IntN(12)]
			n := target - count
			if n <= 0 {
				n = 1 + r.IntN(20)
			}
			if p.MaxSize > 0 && n > 50 {
				n = 50
			}
			p.Ops = append(p.Ops, BOp{K: BWriteMany, N: n, Seed: r.Uint64(), A: 1 + r.IntN(6)})
			count += n
			off += n * 10
			if off >= cur {
				cur = off * 2
			}
		case x < 72:
			p.Ops = append(p.Ops, BOp{K: BCheckSlices})
		case x < 88:
			p.Ops = append(p.Ops, BOp{K: BSort, Less: r.IntN(NumLess)})
		case x < 96:
			a, b := 0, 0
			if count > 0 {
				a = r.IntN(count)
				b = a + r.IntN(count-a+1)
			}
			p.Ops = append(p.Ops, BOp{K: BSortBetween, Less: r.IntN(NumLess), A: a, B: b})
		default:
			p.Ops = append(p.Ops, BOp{K: BReset})
			off, count = 8, 0
		}
	}
	p.Ops = append(p.Ops, BOp{K: BCheckSlices})
	return p
}

// genBufferHuge: a few small raw operations around one allocation larger than
// the 1 GB growth step ("larger-than-capacity" at the size where Grow's step
// limit and its "at least n" floor meet).
func genBufferHuge(r *rand.Rand, p *BufPlan) *BufPlan {
	p.Huge = true
	p.Mode = ModeTmpMmap
	if r.IntN(2) == 0 {
		// the huge growth is (or follows) the switch to a file
		p.Mode = ModeAutoMmap
		p.Threshold = []int{1, 64, 4096, 100000, 1 << 30}[r.IntN(5)]
	}
	p.InitCap = []int{0, 64, 100, 4096, 1 << 20}[r.IntN(5)]
	small := func() BOp {
		k := []int{BWrite, BAllocate, BAllocateOffset, BGrow}[r.IntN(4)]
		return BOp{K: k, N: []int{0, 1, 8, 40, 100, 5000}[r.IntN(6)], Seed: r.Uint64()}
	}
	for i, n := 0, r.IntN(4); i < n; i++ {
		p.Ops = append(p.Ops, small())
	}
	huge := 1<<30 + []int{1, 2, 64, 4096, 4097, 1 << 20, 1<<29 + 3}[r.IntN(7)]
	p.Ops = append(p.Ops, BOp{K: BHuge, N: huge, A: r.IntN(2), Seed: r.Uint64()})
	for i, n := 0, r.IntN(5); i < n; i++ {
		if r.IntN(8) == 0 {
			p.Ops = append(p.Ops, BOp{K: BReset})
			continue
		}
		p.Ops = append(p.Ops, small())
	}
	return p
}

func pattern(seed uint64, n int) []byte {
	b := make([]byte, n)
	x := seed | 1
	for i := range b {
		x ^= x << 13
		x ^= x >> 7
		x ^= x << 17
		b[i] = byte(x)
	}
	return b
}

func lessFn(kind int) func(a, b []byte) bool {
	switch kind {
	case LessBytes:
		return func(a, b []byte) bool { return bytes.Compare(a, b) < 0 }
	case LessReverse:
		return func(a, b []byte) bool { return bytes.Compare(a, b) > 0 }
	case LessLen:
		return func(a, b []byte) bool { return len(a) < len(b) }
	case LessLastByte:
		return func(a, b []byte) bool {
			var x, y int = -1, -1
			if len(a) > 0 {
				x = int(a[len(a)-1])
			}
			if len(b) > 0 {
				y = int(b[len(b)-1])
			}
			return x < y
		}
	case LessFalse:
		return func(a, b []byte) bool { return false }
	default:
		return func(a, b []byte) bool {
			var x, y int = -1, -1
			if len(a) > 0 {
				x = int(a[0])
			}
			if len(b) > 0 {
				y = int(b[0])
			}
			return x <= y
		}
	}
}

type bufRun struct {
	plan                                         *BufPlan
	buf                                          *z.Buffer
	raw                                          []byte   // model: raw regime
	// Huge plans: the model of the one huge allocation is sparse: it sits at
	// raw[hugeAt] (not stored in raw), is hugeLen long, and only its first and
	// last len(hugeHead)/len(hugeTail) bytes were written
	hugeAt, hugeLen    int
	hugeHead, hugeTail []byte
	slices                                       [][]byte // model: slice regime (including empty slices)
	viol                                         []Violation
	opIdx                                        int
	grows, sorts, migrations, refused, maxSlices int
	huge                                         int
}

func (t *bufRun) violate(rule, msg string) {
	if len(t.viol) < 16 {
		t.viol = append(t.viol, Violation{Prop: "C11", Rule: rule, Msg: fmt.Sprintf("op %d (%s): %s", t.opIdx, BOpNames[t.plan.Ops[min(t.opIdx, len(t.plan.Ops)-1)].K], msg), Seq: uint64(t.opIdx)})
	}
}

// modelLen: used length including the 8 bytes of padding.
func (t *bufRun) modelLen() int {
	if !t.plan.Slices {
		return 8 + len(t.raw) + t.hugeLen
	}
	n := 8
	for _, s := range t.slices {
		n += 8 + len(s)
	}
	return n
}

// guarded runs f; reports whether it panicked (refusal of a size-limited buffer).
func guarded(f func()) (panicked bool, msg string) {
	defer func() {
		if r := recover(); r != nil {
			panicked, msg = true, fmt.Sprint(r)
		}
	}()
	f()
	return
}

func (t *bufRun) checkRaw(when string) {
	got := t.buf.Bytes()
	if t.hugeLen > 0 {
		// sparse comparison: everything but the untouched middle of the huge allocation
		want := len(t.raw) + t.hugeLen
		if len(got) != want || t.buf.LenNoPadding() != want {
			t.violate("len", fmt.Sprintf("%s: Bytes() has %d bytes, LenNoPadding()=%d, model %d", when, len(got), t.buf.LenNoPadding(), want))
			return
		}
		h := got[t.hugeAt : t.hugeAt+t.hugeLen]
		if !bytes.Equal(got[:t.hugeAt], t.raw[:t.hugeAt]) || !bytes.Equal(got[t.hugeAt+t.hugeLen:], t.raw[t.hugeAt:]) ||
			!bytes.Equal(h[:len(t.hugeHead)], t.hugeHead) || !bytes.Equal(h[len(h)-len(t.hugeTail):], t.hugeTail) {
			t.violate("bytes-differ", fmt.Sprintf("%s: Bytes() differs from the bytes written around the %d-byte allocation at offset %d", when, t.hugeLen, t.hugeAt))
		}
		return
	}
	if !bytes.Equal(got, t.raw) {
		i := 0
		for i < len(got) && i < len(t.raw) && got[i] == t.raw[i] {
			i++
		}
		t.violate("bytes-differ", fmt.Sprintf("%s: Bytes() has %d bytes, model %d; first difference at offset %d", when, len(got), len(t.raw), i))
	}
	if t.buf.LenNoPadding() != len(t.raw) {
		t.violate("len", fmt.Sprintf("%s: LenNoPadding()=%d, model %d", when, t.buf.LenNoPadding(), len(t.raw)))
	}
}

func (t *bufRun) checkSlices(when string) {
	var nonEmpty [][]byte
	for _, s := range t.slices {
		if len(s) > 0 {
			nonEmpty = append(nonEmpty, s)
		}
	}
	var got [][]byte
	err := t.buf.SliceIterate(func(s []byte) error {
		got = append(got, append([]byte{}, s...))
		return nil
	})
	if err != nil {
		t.violate("iterate-error", fmt.Sprintf("%s: SliceIterate returned %v", when, err))
	}
	if len(got) != len(nonEmpty) {
		t.violate("iterate-count", fmt.Sprintf("%s: SliceIterate yielded %d slices, %d non-empty slices were written", when, len(got), len(nonEmpty)))
		return
	}
	for i := range got {
		if !bytes.Equal(got[i], nonEmpty[i]) {
			t.violate("iterate-content", fmt.Sprintf("%s: slice #%d yielded by SliceIterate differs from the slice written (len %d vs %d)", when, i, len(got[i]), len(nonEmpty[i])))
			return
		}
	}
	if len(t.slices) > 0 {
		offs := t.buf.SliceOffsets()
		if len(offs) != len(t.slices) {
			t.violate("offsets-count", fmt.Sprintf("%s: SliceOffsets returned %d offsets, %d slices were written", when, len(offs), len(t.slices)))
			return
		}
		for i, o := range offs {
			s, _ := t.buf.Slice(o)
			if !bytes.Equal(s, t.slices[i]) {
				t.violate("offsets-content", fmt.Sprintf("%s: Slice(SliceOffsets()[%d]) differs from the slice written", when, i))
				return
			}
		}
	}
}

func (t *bufRun) checkSorted(lo, hi int, less func(a, b []byte) bool, before [][]byte, when string) {
	// read back all slices through the offsets
	offs := t.buf.SliceOffsets()
	if len(offs) != len(before) {
		t.violate("sort-count", fmt.Sprintf("%s: %d slices after sorting, %d before", when, len(offs), len(before)))
		return
	}
	after := make([][]byte, len(offs))
	for i, o := range offs {
		s, _ := t.buf.Slice(o)
		after[i] = append([]byte{}, s...)
	}
	// outside [lo,hi) nothing moved
	for i := range after {
		if (i < lo || i >= hi) && !bytes.Equal(after[i], before[i]) {
			t.violate("sort-outside", fmt.Sprintf("%s: slice #%d outside the sorted range changed", when, i))
			return
		}
	}
	// permutation
	cnt := map[string]int{}
	for i := lo; i < hi; i++ {
		cnt[string(before[i])]++
	}
	for i := lo; i < hi; i++ {
		cnt[string(after[i])]--
	}
	for k, c := range cnt {
		if c != 0 {
			t.violate("sort-permutation", fmt.Sprintf("%s: the sorted range is not a permutation of the slices written (slice of length %d: multiplicity off by %d)", when, len(k), c))
			return
		}
	}
	// order: no adjacent pair (a,b) with less(b,a) and not less(a,b)
	for i := lo; i+1 < hi; i++ {
		a, b := after[i], after[i+1]
		if less(b, a) && !less(a, b) {
			t.violate("sort-order", fmt.Sprintf("%s: slices #%d and #%d are out of order under the comparison function", when, i, i+1))
			return
		}
	}
	t.slices = after
}

func runBuffer(plan *BufPlan, dir string) (res *RunResult) {
	t := &bufRun{plan: plan}
	res = &RunResult{}
	defer func() {
		if r := recover(); r != nil {
			t.violate("panic", fmt.Sprintf("panic: %v", r))
		}
		if t.buf != nil {
			func() {
				defer func() { recover() }()
				t.buf.Release()
			}()
		}
		res.Violations = t.viol
		res.Steps = t.opIdx
		res.Extra = map[string]int{"grows": t.grows, "sorts": t.sorts, "calloc_to_mmap": t.migrations, "refused_by_max_size": t.refused, "max_slices": t.maxSlices, "allocations_above_1GB": t.huge}
	}()
	switch plan.Mode {
	case ModeCalloc:
		t.buf = z.NewBuffer(plan.InitCap, "zsim")
	case ModeTmpMmap:
		b, err := z.NewBufferTmp(dir, plan.InitCap)
		if err != nil {
			res.Abort = "tmp: " + err.Error()
			return
		}
		t.buf = b
	case ModeAutoMmap:
		t.buf = z.NewBuffer(plan.InitCap, "zsim").WithAutoMmap(plan.Threshold, dir)
	case ModePersistent:
		path := dir + "/persistent.buf"
		os.Remove(path)
		if plan.PreSize > 0 {
			if err := os.WriteFile(path, make([]byte, plan.PreSize), 0o644); err != nil {
				res.Abort = "pre-existing file: " + err.Error()
				return
			}
		}
		b, err := z.NewBufferPersistent(path, plan.InitCap)
		if err != nil {
			res.Abort = "persistent: " + err.Error()
			return
		}
		t.buf = b
	}
	if plan.MaxSize > 0 {
		t.buf.WithMaxSize(plan.MaxSize)
	}
	cleanup := func() {
		// auto-mmap files are not removed by Release when they were created by the switch
		ents, _ := os.ReadDir(dir)
		for _, e := range ents {
			os.Remove(dir + "/" + e.Name())
		}
	}
	defer cleanup()

	// within reports whether adding n more used bytes stays within the limit
	within := func(n int) bool { return plan.MaxSize == 0 || t.modelLen()+n <= plan.MaxSize }
	refusal := func(p bool, msg string, n int) bool {
		if !p {
			return false
		}
		// a panic: legitimate only as the refusal of a size-limited buffer
		if plan.MaxSize > 0 && !within(n) {
			t.refused++
			return true
		}
		t.violate("panic", fmt.Sprintf("panicked although the operation stays within the limit (used %d + %d, max %d): %s", t.modelLen(), n, plan.MaxSize, msg))
		return true
	}
	for i, op := range plan.Ops {
		t.opIdx = i
		workerProgress.Add(1)
		capBefore := len(t.buf.Data(0))
		stop := false
		switch op.K {
		case BWrite:
			data := pattern(op.Seed, op.N)
			p, msg := guarded(func() { t.buf.Write(data) })
			if refusal(p, msg, op.N) {
				stop = true
				break
			}
			t.raw = append(t.raw, data...)
			t.checkRaw("after Write")
		case BAllocate:
			data := pattern(op.Seed, op.N)
			p, msg := guarded(func() {
				s := t.buf.Allocate(op.N)
				if len(s) != op.N {
					t.violate("allocate-len", fmt.Sprintf("Allocate(%d) returned %d bytes", op.N, len(s)))
				}
				copy(s, data)
			})
			if refusal(p, msg, op.N) {
				stop = true
				break
			}
			t.raw = append(t.raw, data...)
			t.checkRaw("after Allocate")
		case BAllocateOffset:
			data := pattern(op.Seed, op.N)
			p, msg := guarded(func() {
				off := t.buf.AllocateOffset(op.N)
				if off != t.modelLen() {
					t.violate("allocate-offset", fmt.Sprintf("AllocateOffset(%d) returned offset %d, used length was %d", op.N, off, t.modelLen()))
				}
				b := t.buf.Bytes()
				copy(b[off-8:], data)
			})
			if refusal(p, msg, op.N) {
				stop = true
				break
			}
			t.raw = append(t.raw, data...)
			t.checkRaw("after AllocateOffset")
		case BGrow:
			p, msg := guarded(func() { t.buf.Grow(op.N) })
			if refusal(p, msg, op.N) {
				stop = true
				break
			}
			t.checkRaw("after Grow")
		case BHuge:
			head, tail := pattern(op.Seed, 64), pattern(op.Seed+1, 64)
			at := len(t.raw)
			p, msg := guarded(func() {
				var s []byte
				if op.A == 0 {
					s = t.buf.Allocate(op.N)
				} else {
					off := t.buf.AllocateOffset(op.N)
					if off != 8+at {
						t.violate("allocate-offset", fmt.Sprintf("AllocateOffset(%d) returned offset %d, used length was %d", op.N, off, 8+at))
					}
					s = t.buf.Bytes()[off-8:]
				}
				if len(s) != op.N {
					t.violate("allocate-len", fmt.Sprintf("allocation of %d bytes gave %d bytes", op.N, len(s)))
					return
				}
				copy(s, head)
				copy(s[len(s)-64:], tail)
			})
			if refusal(p, msg, op.N) {
				stop = true
				break
			}
			t.hugeAt, t.hugeLen, t.hugeHead, t.hugeTail = at, op.N, head, tail
			t.huge++
			t.checkRaw("after the allocation above 1 GB")
		case BReset:
			t.buf.Reset()
			t.raw, t.slices = nil, nil
			t.hugeAt, t.hugeLen, t.hugeHead, t.hugeTail = 0, 0, nil, nil
			if !t.buf.IsEmpty() {
				t.violate("reset", "buffer not empty after Reset")
			}
		case BWriteSlice:
			data := pattern(op.Seed, op.N)
			p, msg := guarded(func() { t.buf.WriteSlice(data) })
			if refusal(p, msg, 8+op.N) {
				stop = true
				break
			}
			t.slices = append(t.slices, data)
		case BSliceAllocate:
			data := pattern(op.Seed, op.N)
			p, msg := guarded(func() {
				s := t.buf.SliceAllocate(op.N)
				if len(s) != op.N {
					t.violate("allocate-len", fmt.Sprintf("SliceAllocate(%d) returned %d bytes", op.N, len(s)))
				}
				copy(s, data)
			})
			if refusal(p, msg, 8+op.N) {
				stop = true
				break
			}
			t.slices = append(t.slices, data)
		case BWriteMany:
			x := op.Seed | 1
			for j := 0; j < op.N && !stop; j++ {
				x ^= x << 13
				x ^= x >> 7
				x ^= x << 17
				n := int(x % uint64(op.A+1))
				data := pattern(x, n)
				p, msg := guarded(func() { t.buf.WriteSlice(data) })
				if refusal(p, msg, 8+n) {
					stop = true
					break
				}
				t.slices = append(t.slices, data)
			}
		case BCheckSlices:
			t.checkSlices("CheckSlices")
		case BSort:
			if len(t.slices) == 0 {
				continue
			}
			t.sorts++
			before := t.slices
			less := lessFn(op.Less)
			t.buf.SortSlice(less)
			t.checkSorted(0, len(before), less, before, "after SortSlice")
		case BSortBetween:
			if len(t.slices) == 0 {
				continue
			}
			offs := t.buf.SliceOffsets()
			if len(offs) != len(t.slices) {
				t.violate("offsets-count", fmt.Sprintf("SliceOffsets returned %d offsets, %d slices were written", len(offs), len(t.slices)))
				break
			}
			a, b := op.A, op.B
			if a > len(offs) {
				a = len(offs)
			}
			if b > len(offs) {
				b = len(offs)
			}
			if a >= b {
				continue
			}
			start := offs[a]
			end := t.buf.LenWithPadding()
			if b < len(offs) {
				end = offs[b]
			}
			t.sorts++
			before := t.slices
			less := lessFn(op.Less)
			t.buf.SortSliceBetween(start, end, less)
			t.checkSorted(a, b, less, before, fmt.Sprintf("after SortSliceBetween(slices %d..%d)", a, b))
		}
		if len(t.slices) > t.maxSlices {
			t.maxSlices = len(t.slices)
		}
		// the limit is never exceeded
		// (a limit below the 8 bytes of padding every buffer starts with is exceeded
		// from the start by the padding alone; what must not happen is growth)
		if plan.MaxSize > 0 && t.buf.LenWithPadding() > plan.MaxSize && t.buf.LenWithPadding() > 8 {
			t.violate("max-size-exceeded", fmt.Sprintf("used length %d exceeds the limit %d", t.buf.LenWithPadding(), plan.MaxSize))
		}
		if t.buf.LenWithPadding() != t.modelLen() && !stop {
			t.violate("len", fmt.Sprintf("LenWithPadding()=%d, model %d", t.buf.LenWithPadding(), t.modelLen()))
		}
		if c := len(t.buf.Data(0)); c != capBefore {
			t.grows++
			// data written before a growth / remap / migration is unchanged after it
			if plan.Slices {
				t.checkSlices("after growth")
			} else {
				t.checkRaw("after growth")
			}
		}
		if stop || len(t.viol) > 0 {
			break
		}
	}
	if len(t.viol) == 0 {
		if plan.Slices {
			t.checkSlices("final")
		} else {
			t.checkRaw("final")
		}
	}
	return
}
