package zsim

import (
	"encoding/json"
	"fmt"
	"os"
	"strconv"
	"testing"
)

func TestDbgPlan(t *testing.T) {
	s := os.Getenv("DBG_SEED")
	if s == "" {
		t.Skip()
	}
	seed, _ := strconv.ParseUint(s, 10, 64)
	switch os.Getenv("DBG_PROFILE") {
	case "buffer":
		b, _ := json.Marshal(genBuffer(seed, false))
		fmt.Println(string(b))
	case "alloc":
		b, _ := json.Marshal(genAlloc(seed, false))
		fmt.Println(string(b))
	default:
		b, _ := json.Marshal(genTree(seed, os.Getenv("DBG_PROFILE") == "treereopen", false))
		fmt.Println(string(b))
	}
}
