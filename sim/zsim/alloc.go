package zsim

import (
	"fmt"
	"sort"
	"unsafe"

	"github.com/dgraph-io/ristretto/v2/z"

	"verifsim/core"
)

// Allocator request kinds.
const (
	AAllocate = iota
	AAligned
	ACopy
)

// Size modes: absolute, or relative to the allocator's state at the moment
// of the call (white box): remaining room of the current chunk, or the size
// the next chunk will have.
const (
	SzAbs = iota
	SzRemaining
	SzNextChunk
)

type AOp struct {
	K    int `json:"k"`
	Mode int `json:"mode,omitempty"`
	N    int `json:"n"` // absolute size, or delta for the relative modes
}

// Phase kinds.
const (
	PhConcurrent = iota // several tasks
	PhSequential        // one task; followed by Reset + replay (Allocated() must not grow)
	PhReset
	PhTrim // TrimTo(N)
	// PhTrimLive: TrimTo(N) with no Reset after it. Slices in buffers that
	// survive the call stay valid and the phases that follow must not overlap
	// or overwrite them; slices in released buffers are forgotten.
	PhTrimLive
)

type APhase struct {
	Kind  int     `json:"kind"`
	N     int     `json:"n,omitempty"`
	Progs [][]AOp `json:"progs,omitempty"`
}

type AllocPlan struct {
	InitSize int           `json:"init_size"`
	Phases   []APhase      `json:"phases"`
	Sched    core.SchedCfg `json:"sched"`
	MaxSteps int           `json:"max_steps"`
}

func genAlloc(seed uint64, deep bool) *AllocPlan {
	r := core.NewRand(seed, 1)
	p := &AllocPlan{}
	p.InitSize = []int{0, 512, 513, 1000, 1024, 4096}[r.IntN(6)]
	drawOp := func() AOp {
		op := AOp{K: []int{AAllocate, AAllocate, AAligned, ACopy}[r.IntN(4)]}
		switch r.IntN(10) {
		case 0, 1:
			op.Mode, op.N = SzRemaining, r.IntN(3)-1
		case 2:
			op.Mode, op.N = SzNextChunk, r.IntN(3)-1
		case 3:
			op.N = 64 << 10
		case 4:
			op.N = []int{1, 7, 8, 9}[r.IntN(4)]
		default:
			op.N = 1 + r.IntN(300)
		}
		return op
	}
	nph := 1 + r.IntN(5)
	progMax := 8
	if deep {
		nph = 4 + r.IntN(12)
		progMax = 24
	}
	for i := 0; i < nph; i++ {
		switch x := r.IntN(10); {
		case x < 5:
			nt := 2 + r.IntN(5)
			ph := APhase{Kind: PhConcurrent}
			for t := 0; t < nt; t++ {
				var prog []AOp
				for j, nj := 0, 1+r.IntN(progMax); j < nj; j++ {
					prog = append(prog, drawOp())
				}
				ph.Progs = append(ph.Progs, prog)
			}
			p.Phases = append(p.Phases, ph)
		case x < 7:
			ph := APhase{Kind: PhSequential}
			var prog []AOp
			for j := 0; j < 2+r.IntN(20); j++ {
				op := drawOp()
				op.Mode = SzAbs // the replay must issue the very same requests
				if op.N <= 0 {
					op.N = 1 + r.IntN(64)
				}
				prog = append(prog, op)
			}
			ph.Progs = [][]AOp{prog}
			p.Phases = append(p.Phases, ph)
		case x < 8:
			p.Phases = append(p.Phases, APhase{Kind: PhReset})
		case x < 9:
			p.Phases = append(p.Phases, APhase{Kind: PhTrimLive, N: []int{0, 1, 512, 1024, 2000, 3000, 5000, 100000}[r.IntN(8)]})
		default:
			p.Phases = append(p.Phases, APhase{Kind: PhTrim, N: []int{0, 1, 512, 1024, 2000, 5000, 100000, 1 << 30}[r.IntN(8)]})
		}
	}
	p.Sched.Strategy = []int{core.StratUniform, core.StratSticky, core.StratPCT}[r.IntN(3)]
	p.Sched.StickyP = []int{500, 800}[r.IntN(2)]
	p.Sched.PCTDepth = 1 + r.IntN(3)
	p.Sched.PCTSteps = 200
	p.MaxSteps = 20000
	if deep {
		p.MaxSteps = 100000
	}
	return p
}

type handed struct {
	lo, hi uintptr
	s      []byte
	pat    byte
	task   int
	seq    int
}

type allocRun struct {
	plan              *AllocPlan
	a                 *z.Allocator
	sim               *core.Sim
	dec               *core.Decider
	live              []handed // since the last Reset
	trimLive, trimLiveReleased, trimLiveCurrent int // TrimTo without Reset: performed / released at least one buffer / released the buffer in use
	viol              []Violation
	nseq              int
	inSlow            [16]bool
	overshootTogether int
	slowPaths         int
	chunksAdded       int
	fp                uint64
}

var AR *allocRun

func (t *allocRun) violate(rule, msg string) {
	if len(t.viol) < 16 {
		t.viol = append(t.viol, Violation{Prop: "C12", Rule: rule, Msg: msg, Seq: uint64(t.nseq)})
	}
}

func (t *allocRun) size(op AOp) int {
	n := op.N
	switch op.Mode {
	case SzRemaining:
		_, pos, cur, _ := z.VerifAllocState(t.a)
		n = cur - pos + op.N
	case SzNextChunk:
		_, _, cur, next := z.VerifAllocState(t.a)
		if next == 0 {
			next = 2 * cur
		}
		n = next + op.N
	}
	if op.K == AAligned {
		n -= 7
	}
	if n <= 0 {
		n = 1
	}
	if n > 1<<20 {
		n = 1 << 20
	}
	return n
}

// do performs one request and checks what can be checked at return.
func (t *allocRun) do(task int, op AOp) {
	n := t.size(op)
	var s []byte
	switch op.K {
	case AAllocate:
		s = t.a.Allocate(n)
	case AAligned:
		s = t.a.AllocateAligned(n)
		if len(s) > 0 && uintptr(unsafe.Pointer(&s[0]))%8 != 0 {
			t.violate("not-aligned", fmt.Sprintf("AllocateAligned(%d) returned address %#x", n, uintptr(unsafe.Pointer(&s[0]))))
		}
		for i, b := range s {
			if b != 0 {
				t.violate("not-zeroed", fmt.Sprintf("AllocateAligned(%d): byte %d is %#x at return", n, i, b))
				break
			}
		}
	case ACopy:
		src := pattern(uint64(t.nseq*7919+task+1), n)
		s = t.a.Copy(src)
		if string(s) != string(src) {
			t.violate("copy-differs", fmt.Sprintf("Copy of %d bytes returned different contents", n))
		}
	}
	if len(s) != n {
		t.violate("wrong-length", fmt.Sprintf("request for %d bytes returned a slice of length %d", n, len(s)))
	}
	if len(s) == 0 {
		return
	}
	t.nseq++
	h := handed{lo: uintptr(unsafe.Pointer(&s[0])), s: s, pat: byte(1 + (t.nseq*31+task)%250), task: task, seq: t.nseq}
	h.hi = h.lo + uintptr(len(s))
	for i := range s {
		s[i] = h.pat
	}
	t.live = append(t.live, h)
}

// checkLive: pairwise disjoint, and every slice still holds its pattern.
func (t *allocRun) checkLive(when string) {
	hs := append([]handed{}, t.live...)
	sort.Slice(hs, func(i, j int) bool { return hs[i].lo < hs[j].lo })
	for i := 1; i < len(hs); i++ {
		if hs[i].lo < hs[i-1].hi {
			t.violate("overlap", fmt.Sprintf("%s: slice #%d [%#x,%#x) of task %d overlaps slice #%d [%#x,%#x) of task %d", when,
				hs[i].seq, hs[i].lo, hs[i].hi, hs[i].task, hs[i-1].seq, hs[i-1].lo, hs[i-1].hi, hs[i-1].task))
			return
		}
	}
	for _, h := range t.live {
		for i, b := range h.s {
			if b != h.pat {
				t.violate("overwritten", fmt.Sprintf("%s: slice #%d of task %d (len %d) was overwritten at byte %d", when, h.seq, h.task, len(h.s), i))
				return
			}
		}
	}
}

// hook: yield sites inside the allocator
func allocYield(site int) {
	t := AR
	if t == nil {
		return
	}
	if tk := t.sim.Self(); tk != nil {
		switch site {
		case z.VerifSiteAllocLock:
			t.inSlow[tk.Ord%16] = true
			n := 0
			for _, b := range t.inSlow {
				if b {
					n++
				}
			}
			if n >= 2 {
				t.overshootTogether++
			}
			t.slowPaths++
		case z.VerifSiteAllocUnlocked:
			t.inSlow[tk.Ord%16] = false
		}
	}
	core.Yield(site, 0)
}

func (t *allocRun) schedule(tasks []*core.Task, picker *core.Picker) string {
	for {
		done := true
		for _, tk := range tasks {
			if tk.State() != core.StDone {
				done = false
			}
		}
		if done {
			return ""
		}
		if t.sim.Panicked() {
			return "panic"
		}
		if t.dec.Diverged != "" {
			return "diverged"
		}
		if t.sim.Step > t.plan.MaxSteps {
			return "stepcap"
		}
		run := t.sim.Runnable()
		if len(run) == 0 {
			return "deadlock"
		}
		tk := picker.Pick(run, false)
		t.fp = (t.fp ^ uint64(tk.Ord*131+tk.Site)) * 0x100000001b3
		t.sim.Release(tk, 0)
		workerProgress.Add(1)
	}
}

// runAlloc must run on the root goroutine of a synctest bubble.
func runAlloc(plan *AllocPlan, dec *core.Decider) *RunResult {
	t := &allocRun{plan: plan, dec: dec}
	AR = t
	res := &RunResult{}
	sim := core.New(dec)
	t.sim = sim
	core.S = sim
	z.VerifInstall(&z.VerifHooks{Yield: allocYield})
	defer func() {
		z.VerifInstall(nil)
		core.S = nil
		AR = nil
	}()
	t.a = z.NewAllocator(plan.InitSize, "zsim")
	defer t.a.Release()
	picker := core.NewPicker(plan.Sched, dec)
	reason := ""
	ord := 0
	runPhase := func(progs [][]AOp) string {
		var tasks []*core.Task
		for i, prog := range progs {
			i, prog := i, prog
			tasks = append(tasks, sim.Spawn(fmt.Sprintf("a%d", ord), ord, core.KindAlloc, func() {
				for _, op := range prog {
					core.Yield(300, 0)
					t.do(i, op)
				}
			}))
			ord++
		}
		sim.Settle()
		return t.schedule(tasks, picker)
	}
	for pi, ph := range plan.Phases {
		switch ph.Kind {
		case PhConcurrent:
			reason = runPhase(ph.Progs)
			if reason == "" {
				t.checkLive(fmt.Sprintf("end of concurrent phase %d", pi))
			}
		case PhSequential:
			t.a.Reset()
			t.live = t.live[:0]
			reason = runPhase(ph.Progs)
			if reason != "" {
				break
			}
			t.checkLive(fmt.Sprintf("end of sequential phase %d", pi))
			before := t.a.Allocated()
			t.a.Reset()
			t.live = t.live[:0]
			reason = runPhase(ph.Progs)
			if reason != "" {
				break
			}
			t.checkLive(fmt.Sprintf("end of replay of phase %d", pi))
			if after := t.a.Allocated(); after != before {
				t.violate("replay-acquired-memory", fmt.Sprintf("phase %d: Allocated()=%d before Reset, %d after replaying the same %d requests", pi, before, after, len(ph.Progs[0])))
			}
		case PhReset:
			t.a.Reset()
			t.live = t.live[:0]
		case PhTrim:
			t.a.TrimTo(ph.N)
			t.a.Reset()
			t.live = t.live[:0]
		case PhTrimLive:
			t.checkLive(fmt.Sprintf("before TrimTo in phase %d", pi))
			b0, l0, cur := z.VerifAllocChunks(t.a)
			t.a.TrimTo(ph.N)
			b1, l1, _ := z.VerifAllocChunks(t.a)
			if cur >= len(l1) || l1[cur] == 0 {
				// the buffer allocations were going to has been released as well;
				// the allocator must still serve the requests that follow
				t.trimLiveCurrent++
			}
			released := 0
			kept := t.live[:0]
			for _, h := range t.live {
				ok := false
				for i := range b1 {
					if l1[i] > 0 && i < len(b0) && b0[i] == b1[i] && l0[i] == l1[i] && h.lo >= b1[i] && h.hi <= b1[i]+uintptr(l1[i]) {
						ok = true
						break
					}
				}
				if ok {
					kept = append(kept, h)
				}
			}
			for i := range l0 {
				if l0[i] > 0 && (i >= len(l1) || l1[i] == 0) {
					released++
				}
			}
			t.live = kept
			if released > 0 {
				t.trimLiveReleased++
			}
			t.trimLive++
		}
		if reason != "" || len(t.viol) > 0 {
			break
		}
	}
	if sim.Panicked() && reason == "" {
		reason = "panic"
	}
	if reason != "" {
		res.LeftTasks = sim.KillAll()
		switch reason {
		case "stepcap":
			t.violate("non-termination", fmt.Sprintf("a request did not return within %d scheduling steps", plan.MaxSteps))
		case "panic":
			t.violate("panic", sim.PanicText())
		case "deadlock":
			t.violate("deadlock", "no task can run and a request has not returned")
		}
	}
	res.Abort = reason
	res.Violations = t.viol
	res.Steps = sim.Step
	res.FP = t.fp
	res.Tape = dec.Tape
	res.Decisions = len(dec.Tape)
	res.Diverged = dec.Diverged
	res.Extra = map[string]int{"slow_paths": t.slowPaths, "tasks_together_in_slow_path": t.overshootTogether, "trimto_without_reset": t.trimLive, "trimto_without_reset_released_buffers": t.trimLiveReleased, "trimto_without_reset_released_buffer_in_use": t.trimLiveCurrent}
	return res
}
