package zsim

import (
	"bufio"
	"encoding/json"
	"fmt"
	"os"
	"path/filepath"
	"strings"
	"sync"
	"sync/atomic"
	"testing"
	"testing/synctest"
	"time"

	"verifsim/core"
)

type Violation struct {
	Prop string `json:"prop"`
	Rule string `json:"rule"`
	Msg  string `json:"msg"`
	Seq  uint64 `json:"seq"`
}

type RunResult struct {
	Seed       uint64           `json:"seed"`
	Profile    string           `json:"profile"`
	Violations []Violation      `json:"violations,omitempty"`
	Abort      string           `json:"abort,omitempty"`
	Steps      int              `json:"steps"`
	FP         uint64           `json:"fp"`
	Decisions  int              `json:"decisions"`
	Diverged   string           `json:"diverged,omitempty"`
	LeftTasks  int              `json:"left_tasks,omitempty"`
	Extra      map[string]int   `json:"-"`
	Tape       []core.TapeEntry `json:"-"`
}

type Job struct {
	Mode     string   `json:"mode"`
	Prop     string   `json:"prop"`
	Profiles []string `json:"profiles"`
	Seed     uint64   `json:"seed"`
	Start    uint64   `json:"start"`
	Stride   uint64   `json:"stride"`
	MaxRuns  int      `json:"max_runs"`
	Deadline int64    `json:"deadline_unix_ms"`
	Out      string   `json:"out"`
	Replay   string   `json:"replay,omitempty"`
	Lenient  bool     `json:"lenient,omitempty"`
	Trace    bool     `json:"trace,omitempty"`
	Samples  int      `json:"samples"`
	Digest   bool     `json:"digest,omitempty"`
}

type ReplayFile struct {
	Property  string           `json:"property"`
	Rule      string           `json:"rule"`
	Message   string           `json:"message"`
	Engine    string           `json:"engine"`
	Race      bool             `json:"race"`
	VSeed     uint64           `json:"verif_seed"`
	RunIndex  uint64           `json:"run_index"`
	RunSeed   uint64           `json:"run_seed"`
	Profile   string           `json:"profile"`
	Plan      json.RawMessage  `json:"plan,omitempty"`
	Tape      []core.TapeEntry `json:"tape,omitempty"`
	RepoRev   string           `json:"repo_rev,omitempty"`
	Excerpt   []string         `json:"excerpt,omitempty"`
	Minimised bool             `json:"minimised"`
}

type Summary struct {
	Runs       int            `json:"runs"`
	Steps      int64          `json:"steps"`
	SimNanos   int64          `json:"sim_ns"`
	Decisions  int64          `json:"decisions"`
	Probes     map[string]int `json:"probes"`
	ProbeRuns  map[string]int `json:"probe_runs"`
	Strategies map[string]int `json:"strategies"`
	Profiles   map[string]int `json:"profiles"`
	Aborts     map[string]int `json:"aborts"`
	FPs        []uint64       `json:"fps"`
	Pairs      []int          `json:"pairs"`
	Faults     map[string]int `json:"faults"`
	Samples    []any          `json:"samples"`
	WallMs     int64          `json:"wall_ms"`
}

type outLine struct {
	T    string          `json:"t"`
	I    uint64          `json:"i"`
	Seed uint64          `json:"seed,omitempty"`
	Res  *RunResult      `json:"res,omitempty"`
	NT   bool            `json:"nt,omitempty"`
	Sum  *Summary        `json:"sum,omitempty"`
	D    string          `json:"d,omitempty"`
	Plan json.RawMessage `json:"plan,omitempty"`
}

var workerProgress atomic.Int64

// run executes one plan of a profile. plan is the JSON of the profile's plan
// type (nil: generate from seed). Returns the result and the plan's JSON.
func run(t *testing.T, profile, prop string, seed uint64, planJSON json.RawMessage, tape []core.TapeEntry, strict bool, dir string) (*RunResult, json.RawMessage) {
	var res *RunResult
	profile, deep := strings.CutSuffix(profile, "+deep") // thorough tier: deeper bounds
	switch profile {
	case "tree", "treereopen":
		var p *TreePlan
		if planJSON != nil {
			p = &TreePlan{}
			json.Unmarshal(planJSON, p)
		} else {
			p = genTree(seed, profile == "treereopen", deep)
		}
		res = runTree(p, prop, dir)
		planJSON, _ = json.Marshal(p)
		res.FP = fpOps(planJSON)
	case "buffer":
		var p *BufPlan
		if planJSON != nil {
			p = &BufPlan{}
			json.Unmarshal(planJSON, p)
		} else {
			p = genBuffer(seed, deep)
		}
		res = runBuffer(p, dir)
		planJSON, _ = json.Marshal(p)
		res.FP = fpOps(planJSON)
	case "alloc":
		var p *AllocPlan
		if planJSON != nil {
			p = &AllocPlan{}
			json.Unmarshal(planJSON, p)
		} else {
			p = genAlloc(seed, deep)
		}
		var dec *core.Decider
		if tape != nil {
			dec = core.NewReplayDecider(seed, tape, strict)
		} else {
			dec = core.NewDecider(seed)
		}
		func() {
			defer func() {
				if r := recover(); r != nil {
					if res == nil {
						res = &RunResult{Abort: fmt.Sprintf("bubble: %v", r)}
					} else {
						res.LeftTasks++
					}
				}
			}()
			synctest.Test(t, func(t *testing.T) { res = runAlloc(p, dec) })
		}()
		planJSON, _ = json.Marshal(p)
	default:
		res = &RunResult{Abort: "unknown profile " + profile}
	}
	res.Seed, res.Profile = seed, profile
	return res, planJSON
}

func fpOps(b []byte) uint64 {
	h := uint64(14695981039346656037)
	for _, c := range b {
		h = (h ^ uint64(c)) * 1099511628211
	}
	return h
}

func nontrivial(prop string, r *RunResult) bool {
	x := r.Extra
	switch prop {
	case "C10":
		return x["deleted_keys"] > 0 && x["splits"] > 0
	case "C11":
		return x["grows"] > 0 || (x["sorts"] > 0 && x["max_slices"] >= 2)
	case "C12":
		return x["tasks_together_in_slow_path"] > 0
	case "C16":
		return x["reopens_with_free_pages"] > 0
	}
	return true
}

func hasViolation(res *RunResult, prop, rule string) *Violation {
	for i := range res.Violations {
		v := &res.Violations[i]
		if v.Prop == prop && (rule == "" || v.Rule == rule) {
			return v
		}
	}
	return nil
}

// minimise: ddmin over the operation list (and phases/programs for the allocator).
func minimise(t *testing.T, profile, prop, rule string, seed uint64, planJSON json.RawMessage, tape []core.TapeEntry, dir string, budget time.Duration) (json.RawMessage, []core.TapeEntry, *RunResult, int) {
	deadline := time.Now().Add(budget)
	tried := 0
	try := func(pj json.RawMessage, tp []core.TapeEntry) (*RunResult, bool) {
		if time.Now().After(deadline) {
			return nil, false
		}
		tried++
		res, _ := run(t, profile, prop, seed, pj, tp, false, dir)
		return res, hasViolation(res, prop, rule) != nil
	}
	best := planJSON
	bestTape := tape
	var generic map[string]json.RawMessage
	json.Unmarshal(best, &generic)
	shrinkList := func(key string) {
		var ops []json.RawMessage
		if json.Unmarshal(generic[key], &ops) != nil {
			return
		}
		for chunk := len(ops) / 2; chunk >= 1; chunk /= 2 {
			for start := 0; start+chunk <= len(ops); {
				cand := append(append([]json.RawMessage{}, ops[:start]...), ops[start+chunk:]...)
				cb, _ := json.Marshal(cand)
				g2 := map[string]json.RawMessage{}
				for k, v := range generic {
					g2[k] = v
				}
				g2[key] = cb
				pj, _ := json.Marshal(g2)
				if res, ok := try(pj, bestTape); ok {
					ops = cand
					generic = g2
					best = pj
					if res.Tape != nil {
						bestTape = res.Tape
					}
				} else {
					start += chunk
				}
			}
		}
	}
	switch profile {
	case "alloc":
		shrinkList("phases")
		// shrink programs inside phases
		var p AllocPlan
		json.Unmarshal(best, &p)
		for pi := range p.Phases {
			for ti := range p.Phases[pi].Progs {
				for oi := 0; oi < len(p.Phases[pi].Progs[ti]); {
					q := p
					b, _ := json.Marshal(p)
					json.Unmarshal(b, &q)
					q.Phases[pi].Progs[ti] = append(append([]AOp{}, q.Phases[pi].Progs[ti][:oi]...), q.Phases[pi].Progs[ti][oi+1:]...)
					pj, _ := json.Marshal(&q)
					if res, ok := try(pj, bestTape); ok {
						p = q
						best = pj
						if res.Tape != nil {
							bestTape = res.Tape
						}
					} else {
						oi++
					}
				}
			}
		}
	default:
		shrinkList("ops")
	}
	res, _ := run(t, profile, prop, seed, best, bestTape, false, dir)
	if hasViolation(res, prop, rule) == nil {
		res, _ = run(t, profile, prop, seed, planJSON, tape, false, dir)
		return planJSON, res.Tape, res, tried
	}
	return best, res.Tape, res, tried
}

func TestWorker(t *testing.T) {
	jobPath := os.Getenv("VERIF_JOB")
	if jobPath == "" {
		t.Skip("VERIF_JOB not set")
	}
	raw, err := os.ReadFile(jobPath)
	if err != nil {
		t.Fatal(err)
	}
	var job Job
	if err := json.Unmarshal(raw, &job); err != nil {
		t.Fatal(err)
	}
	for _, pn := range job.Profiles {
		switch base, _ := strings.CutSuffix(pn, "+deep"); base {
		case "tree", "treereopen", "buffer", "alloc":
		default:
			t.Fatalf("MACHINERY: unknown profile %q in job", pn)
		}
	}
	f, err := os.OpenFile(job.Out, os.O_CREATE|os.O_WRONLY|os.O_APPEND, 0o644)
	if err != nil {
		t.Fatal(err)
	}
	w := bufio.NewWriter(f)
	var emitMu sync.Mutex
	emit := func(l outLine) {
		emitMu.Lock()
		defer emitMu.Unlock()
		b, _ := json.Marshal(l)
		w.Write(b)
		w.WriteByte('\n')
		w.Flush()
	}
	// scratch directory for mmap files: memory-backed when available (creating
	// and syncing a 1 MiB file per run on disk dominates the run time otherwise)
	base := filepath.Dir(job.Out)
	if st, err := os.Stat("/dev/shm"); err == nil && st.IsDir() && os.Getenv("VERIF_SCRATCH_ON_DISK") == "" {
		base = "/dev/shm"
	}
	dir, err := os.MkdirTemp(base, "verif-zsim-scratch-"+os.Getenv("VERIF_SCRATCH_TAG")+"-")
	if err != nil {
		dir, err = os.MkdirTemp(filepath.Dir(job.Out), "scratch")
	}
	if err != nil {
		t.Fatal(err)
	}
	defer os.RemoveAll(dir)

	var curIdx, curSeed atomic.Uint64
	var active atomic.Bool
	go func() {
		last := workerProgress.Load()
		stalled := 0 // consecutive one-second looks without scheduling progress
		stallCPU := int64(-1)
		for {
			t0 := time.Now()
			time.Sleep(time.Second)
			late := time.Since(t0) > 1500*time.Millisecond // this goroutine was itself held up: the process is being starved or was paused
			p := workerProgress.Load()
			if p != last || !active.Load() || late {
				last, stalled, stallCPU = p, 0, -1
				continue
			}
			// Counted in looks, not in wall-clock time: after a pause of the whole
			// machine the first look must not conclude anything.
			stalled++
			if stallCPU < 0 {
				stallCPU = cpuTicks()
			}
			// A process that makes no progress and burns no CPU is blocked for good
			// (a goroutine waits for a sync.Mutex held by a parked task, which
			// synctest cannot see); one that is busy may just be slow, or spinning.
			idle := false
			if c := cpuTicks(); c >= 0 && stallCPU >= 0 {
				idle = stalled >= 5 && c-stallCPU <= 2
			}
			if idle || stalled >= 25 {
				emit(outLine{T: "hang", I: curIdx.Load(), Seed: curSeed.Load()})
				os.RemoveAll(dir)
				os.Exit(3)
			}
		}
	}()
	start := time.Now()

	if job.Mode == "replay" || job.Mode == "minimise" {
		rb, err := os.ReadFile(job.Replay)
		if err != nil {
			t.Fatal(err)
		}
		var rf ReplayFile
		if err := json.Unmarshal(rb, &rf); err != nil {
			t.Fatal(err)
		}
		curIdx.Store(rf.RunIndex)
		curSeed.Store(rf.RunSeed)
		emit(outLine{T: "start", I: rf.RunIndex, Seed: rf.RunSeed})
		active.Store(true)
		res, pj := run(t, rf.Profile, rf.Property, rf.RunSeed, rf.Plan, rf.Tape, job.Mode == "replay" && len(rf.Tape) > 0, dir)
		if job.Mode == "replay" {
			active.Store(false)
			emit(outLine{T: "run", I: rf.RunIndex, Seed: rf.RunSeed, Res: res, Plan: pj})
			f.Close()
			return
		}
		v := hasViolation(res, rf.Property, rf.Rule)
		if v == nil {
			emit(outLine{T: "notreproduced", I: rf.RunIndex, Seed: rf.RunSeed, Res: res})
			f.Close()
			return
		}
		budget := 45 * time.Second
		if job.MaxRuns > 0 {
			budget = time.Duration(job.MaxRuns) * time.Second
		}
		mp, mt, mres, tried := minimise(t, rf.Profile, rf.Property, v.Rule, rf.RunSeed, pj, res.Tape, dir, budget)
		active.Store(false)
		out := rf
		out.Plan, out.Tape, out.Rule, out.Minimised, out.Engine = mp, mt, v.Rule, true, "zsim"
		if mv := hasViolation(mres, rf.Property, v.Rule); mv != nil {
			out.Message = mv.Msg
		}
		b, _ := json.MarshalIndent(out, "", " ")
		os.WriteFile(job.Replay+".min", b, 0o644)
		emit(outLine{T: "minimised", I: uint64(tried), Seed: rf.RunSeed, Res: mres})
		f.Close()
		return
	}

	sum := &Summary{Probes: map[string]int{}, ProbeRuns: map[string]int{}, Strategies: map[string]int{}, Profiles: map[string]int{}, Aborts: map[string]int{}, Faults: map[string]int{}}
	fps := map[uint64]bool{}
	deadline := time.UnixMilli(job.Deadline)
	idx := job.Start
	for n := 0; n < job.MaxRuns || job.MaxRuns == 0; n++ {
		if job.Deadline > 0 && time.Now().After(deadline) {
			break
		}
		seed := core.RunSeed(job.Seed, idx)
		prof := job.Profiles[int(idx%uint64(len(job.Profiles)))]
		curIdx.Store(idx)
		curSeed.Store(seed)
		emit(outLine{T: "start", I: idx, Seed: seed})
		active.Store(true)
		res, pj := run(t, prof, job.Prop, seed, nil, nil, false, dir)
		active.Store(false)
		nt := nontrivial(job.Prop, res)
		sum.Runs++
		sum.Steps += int64(res.Steps)
		sum.Decisions += int64(res.Decisions)
		sum.Profiles[prof]++
		if res.Abort != "" {
			sum.Aborts[res.Abort]++
		}
		for k, v := range res.Extra {
			if v > 0 {
				sum.Probes[k] += v
				sum.ProbeRuns[k]++
			}
		}
		if nt {
			fps[res.FP] = true
		}
		if len(sum.Samples) < job.Samples && (nt || n > 20) {
			s := string(pj)
			if len(s) > 1500 {
				s = s[:1500] + "..."
			}
			sum.Samples = append(sum.Samples, map[string]any{"profile": prof, "run_seed": seed, "plan": s, "steps": res.Steps})
		}
		if job.Digest {
			vs := ""
			for _, v := range res.Violations {
				vs += v.Prop + "/" + v.Rule + ";"
			}
			emit(outLine{T: "digest", I: idx, D: fmt.Sprintf("fp=%x plan=%x steps=%d dec=%d abort=%q viol=%s", res.FP, fpOps(pj), res.Steps, res.Decisions, res.Abort, vs)})
		}
		if len(res.Violations) > 0 || res.Abort != "" || res.LeftTasks > 0 {
			emit(outLine{T: "run", I: idx, Seed: seed, Res: res, NT: nt})
		}
		emit(outLine{T: "end", I: idx}) // a death after this line is not this run's
		idx += job.Stride
		if res.LeftTasks > 0 || strings.HasPrefix(res.Abort, "bubble") {
			break
		}
	}
	for fp := range fps {
		sum.FPs = append(sum.FPs, fp)
	}
	sum.WallMs = time.Since(start).Milliseconds()
	emit(outLine{T: "summary", I: idx, Sum: sum})
	f.Close()
}

// cpuTicks returns the CPU time (user+system, clock ticks) this process has
// used, or -1 when /proc is not available.
func cpuTicks() int64 {
	b, err := os.ReadFile("/proc/self/stat")
	if err != nil {
		return -1
	}
	// fields after the command name in parentheses
	i := strings.LastIndexByte(string(b), ')')
	if i < 0 {
		return -1
	}
	f := strings.Fields(string(b[i+1:]))
	if len(f) < 13 {
		return -1
	}
	var ut, st int64
	fmt.Sscan(f[11], &ut)
	fmt.Sscan(f[12], &st)
	return ut + st
}
