package zsim

import (
	"fmt"
	"math"
	"os"
	"path/filepath"
	"sort"

	"github.com/dgraph-io/ristretto/v2/z"

	"verifsim/core"
)

// Tree operations.
const (
	TSet = iota
	TDeleteBelow
	TIterRead
	TIterRewrite // keys with key%Mod == Rem get value += Delta
	TReset
	TReopen
	TGet
	TSetMany // N keys starting at K with stride Stride, values V+i*VStride
	// TFillToFrontier inserts fresh sequential keys (from Key upwards, value Val)
	// until the tree uses all but N of the whole pages its backing buffer
	// currently holds: a storage event, the instant just before the buffer grows.
	TFillToFrontier
	NumTOps
)

var TOpNames = []string{"Set", "DeleteBelow", "IterateKV", "IterateKV(rewrite)", "Reset", "CloseReopen", "Get", "SetMany", "FillToFrontier"}

type TOp struct {
	K      int    `json:"k"`
	Key    uint64 `json:"key,omitempty"`
	Val    uint64 `json:"val,omitempty"`
	N      int    `json:"n,omitempty"`
	Stride uint64 `json:"stride,omitempty"`
	VMul   uint64 `json:"vmul,omitempty"`
	Mod    uint64 `json:"mod,omitempty"`
	Rem    uint64 `json:"rem,omitempty"`
}

type TreePlan struct {
	// MinSize is the initial size of the backing buffer in bytes (0: the
	// built-in 1 MiB). Small values make the buffer grow (reallocate / remap)
	// after a few page allocations.
	MinSize    int   `json:"min_size,omitempty"`
	PageSize   int   `json:"page_size"`
	Persistent bool  `json:"persistent"`
	Ops        []TOp `json:"ops"`
}

const maxLegalKey = uint64(math.MaxUint64 - 1) // keys in [1, 2^64-2]; 2^64-2 is MaxUint64-1

// genTree generates a history by running the generator against the reference
// model, so that keys, values and thresholds can be drawn next to existing ones.
func genTree(seed uint64, reopen bool, deep bool) *TreePlan {
	r := core.NewRand(seed, 1)
	p := &TreePlan{}
	p.PageSize = []int{80, 80, 96, 128, 128, 256, 1024, os.Getpagesize()}[r.IntN(8)]
	p.Persistent = reopen || r.IntN(3) == 0
	if r.IntN(3) != 0 {
		// tuning knob: how many pages the buffer holds before its first growth
		// (at least three pages: a persistent tree reads its root page, page 1,
		// from the freshly created file, whose usable size is 8 bytes short)
		p.MinSize = p.PageSize * []int{3, 3, 4, 5, 8, 16, 64}[r.IntN(7)]
		if r.IntN(4) == 0 {
			p.MinSize += []int{1, 8, 9, p.PageSize / 2, p.PageSize - 1}[r.IntN(5)] // not a multiple of the page size
		}
	}
	model := map[uint64]uint64{}
	var keys []uint64 // insertion-ordered list of keys ever set (may contain deleted ones)
	nops := 20 + r.IntN(380)
	if r.IntN(4) == 0 {
		nops = 5 + r.IntN(30)
	}
	keyBudget := 5000
	if deep {
		// thorough tier: histories several times as long over more keys
		nops = 400 + r.IntN(1200)
		keyBudget = 25000
	}
	growth := r.IntN(25) == 0 // a few runs push the tree beyond its initial 1 MiB
	valMode := r.IntN(3)      // 0: unrelated to key order, 1: increasing clock, 2: small range
	clock := uint64(1000)
	drawVal := func() uint64 {
		switch valMode {
		case 1:
			clock += uint64(1 + r.IntN(3))
			return clock
		case 2:
			return uint64(1 + r.IntN(50))
		}
		switch r.IntN(8) {
		case 0:
			return math.MaxUint64
		case 1:
			return 1
		}
		return uint64(1 + r.IntN(100000))
	}
	drawKey := func() uint64 {
		switch r.IntN(10) {
		case 0:
			return maxLegalKey
		case 1:
			return 1 + r.Uint64()%maxLegalKey
		case 2, 3, 4:
			if len(keys) > 0 {
				k := keys[r.IntN(len(keys))]
				d := uint64(r.IntN(3))
				if r.IntN(2) == 0 && k > d {
					k -= d
				} else if k < maxLegalKey-d {
					k += d
				}
				if k == 0 {
					k = 1
				}
				return k
			}
		case 5:
			return uint64(1 + r.IntN(64))
		}
		return uint64(1 + r.IntN(5000))
	}
	setModel := func(k, v uint64) {
		if _, ok := model[k]; !ok {
			keys = append(keys, k)
		}
		model[k] = v
	}
	budget := keyBudget
	for len(p.Ops) < nops {
		x := r.IntN(100)
		switch {
		case x < 55:
			k, v := drawKey(), drawVal()
			p.Ops = append(p.Ops, TOp{K: TSet, Key: k, Val: v})
			setModel(k, v)
		case x < 63:
			n := 10 + r.IntN(200)
			if growth && r.IntN(3) == 0 && len(p.Ops) > nops-25 {
				n = 20000 + r.IntN(30000)
			} else if n > budget {
				n = budget
			}
			if n <= 0 {
				continue
			}
			budget -= n
			start := drawKey()
			stride := uint64(1 + r.IntN(3))
			if r.IntN(4) == 0 {
				stride = uint64(1+r.IntN(1000)) * 7919
			}
			if start > maxLegalKey-uint64(n)*stride {
				start = 1 + uint64(r.IntN(1000))
			}
			v0 := drawVal()
			vmul := uint64(r.IntN(3)) // 0: all the same value, 1: increasing, 2: 2x
			if v0 > math.MaxUint64-uint64(n)*vmul-1 {
				v0 = 1
			}
			p.Ops = append(p.Ops, TOp{K: TSetMany, Key: start, Val: v0, N: n, Stride: stride, VMul: vmul})
			for i := 0; i < n; i++ {
				setModel(start+uint64(i)*stride, v0+uint64(i)*vmul)
			}
		case x < 75:
			// threshold next to an existing value
			var ts uint64
			if len(model) > 0 && r.IntN(5) != 0 {
				k := keys[r.IntN(len(keys))]
				if v, ok := model[k]; ok {
					ts = v + uint64(r.IntN(3)) - 1
				}
			}
			if ts == 0 {
				ts = drawVal()
			}
			if r.IntN(10) == 0 {
				// the ends of the range: a threshold of 0 removes nothing, one of 2^64-1 everything but that value
				ts = []uint64{0, 0, 1, math.MaxUint64}[r.IntN(4)]
			}
			p.Ops = append(p.Ops, TOp{K: TDeleteBelow, Val: ts})
			for k, v := range model {
				if v < ts {
					delete(model, k)
				}
			}
		case x < 80:
			p.Ops = append(p.Ops, TOp{K: TIterRead})
		case x < 85:
			mod := uint64(2 + r.IntN(5))
			rem := uint64(r.IntN(int(mod)))
			nv := drawVal()
			p.Ops = append(p.Ops, TOp{K: TIterRewrite, Mod: mod, Rem: rem, Val: nv})
			for k := range model {
				if k%mod == rem {
					model[k] = nv
				}
			}
		case x < 87:
			p.Ops = append(p.Ops, TOp{K: TReset})
			model = map[uint64]uint64{}
			keys = keys[:0]
			budget = keyBudget
		case x < 93:
			p.Ops = append(p.Ops, TOp{K: TGet, Key: drawKey()})
		default:
			if reopen {
				p.Ops = append(p.Ops, TOp{K: TReopen})
			} else {
				p.Ops = append(p.Ops, TOp{K: TGet, Key: drawKey()})
			}
		}
		// bias: reopen right after a DeleteBelow
		if reopen && len(p.Ops) > 0 && p.Ops[len(p.Ops)-1].K == TDeleteBelow && r.IntN(3) == 0 {
			p.Ops = append(p.Ops, TOp{K: TReopen})
		}
	}
	if r.IntN(8) == 0 {
		// place a fill-to-frontier (and a reopen right after it) somewhere in the history
		// near the end: every later operation is checked against a model of
		// tens of thousands of keys, which makes long tails slow
		at := len(p.Ops) - r.IntN(min(len(p.Ops), 12)+1)
		fill := []TOp{{K: TFillToFrontier, Key: 1<<40 + uint64(r.IntN(1000))*1000003, Val: drawVal(), N: r.IntN(3)}}
		if reopen {
			fill = append(fill, TOp{K: TReopen})
		}
		p.Ops = append(p.Ops[:at], append(fill, p.Ops[at:]...)...)
	}
	if reopen {
		p.Ops = append(p.Ops, TOp{K: TReopen})
	}
	return p
}

type treeRun struct {
	plan     *TreePlan
	tree     *z.Tree
	path     string
	model    map[uint64]uint64
	gone     map[uint64]bool // keys removed so far (must read 0 until set again)
	goneList []uint64
	viol     []Violation
	prop     string
	stats    treeStats
	opIdx    int
}

type treeStats struct {
	frontierFills                                                                                      int
	splits, recycled, reused, reopens, reopensWithFree, deletedKeys, growths, deleteBelows, leafMaxHit int
}

func (t *treeRun) violate(prop, rule, msg string) {
	if prop == "C16" && t.stats.reopens == 0 {
		prop = "C10" // nothing was reopened yet: plain map behaviour
	}
	if len(t.viol) < 16 {
		t.viol = append(t.viol, Violation{Prop: prop, Rule: rule, Msg: fmt.Sprintf("op %d (%s): %s", t.opIdx, TOpNames[t.plan.Ops[min(t.opIdx, len(t.plan.Ops)-1)].K], msg), Seq: uint64(t.opIdx)})
	}
}

func (t *treeRun) open() error {
	var err error
	if t.plan.Persistent {
		t.tree, err = z.NewTreePersistent(t.path)
	} else {
		t.tree = z.NewTree("zsim")
	}
	return err
}

// fullCheck: IterateKV yields the model exactly once each; every model key reads its value.
func (t *treeRun) fullCheck(prop, when string) {
	seen := map[uint64]int{}
	bad := 0
	t.tree.IterateKV(func(k, v uint64) uint64 {
		seen[k]++
		if mv, ok := t.model[k]; !ok {
			if bad < 3 {
				t.violate(prop, "iterate-extra", fmt.Sprintf("%s: IterateKV visited key %d (value %d) which is not live in the reference map", when, k, v))
			}
			bad++
		} else if mv != v {
			if bad < 3 {
				t.violate(prop, "iterate-value", fmt.Sprintf("%s: IterateKV visited key %d with value %d, reference value %d", when, k, v, mv))
			}
			bad++
		}
		return 0
	})
	for k, c := range seen {
		if c > 1 {
			t.violate(prop, "iterate-twice", fmt.Sprintf("%s: IterateKV visited key %d %d times", when, k, c))
			break
		}
	}
	n := 0
	for k, v := range t.model {
		if seen[k] == 0 {
			if n < 3 {
				t.violate(prop, "iterate-missing", fmt.Sprintf("%s: IterateKV did not visit live key %d (value %d)", when, k, v))
			}
			n++
		}
		if g := t.tree.Get(k); g != v {
			if n < 3 {
				t.violate(prop, "get-value", fmt.Sprintf("%s: Get(%d)=%d, reference value %d", when, k, g, v))
			}
			n++
		}
	}
	// deleted keys stay deleted: all of them while there are few, otherwise the
	// most recent deletions in full plus a stride over the older ones
	checked := 0
	for i := len(t.goneList) - 1; i >= 0; i-- {
		if checked > 3000 && i%17 != 0 {
			continue
		}
		k := t.goneList[i]
		if _, live := t.model[k]; live {
			continue
		}
		checked++
		if g := t.tree.Get(k); g != 0 {
			t.violate(prop, "deleted-readable", fmt.Sprintf("%s: Get(%d)=%d although the key was deleted", when, k, g))
			break
		}
	}
}

func (t *treeRun) neighbours(k uint64, prop string) {
	for _, d := range []uint64{1, 2} {
		for _, nk := range []uint64{k - d, k + d} {
			if nk == 0 || nk > maxLegalKey || (d > k && nk > k) {
				continue
			}
			want := t.model[nk]
			if g := t.tree.Get(nk); g != want {
				t.violate(prop, "neighbour", fmt.Sprintf("Get(%d)=%d after touching key %d, reference value %d", nk, g, k, want))
				return
			}
		}
	}
}

func runTree(plan *TreePlan, prop string, dir string) (res *RunResult) {
	t := &treeRun{plan: plan, model: map[uint64]uint64{}, gone: map[uint64]bool{}, prop: prop}
	res = &RunResult{}
	old := z.VerifSetPageSize(plan.PageSize)
	defer z.VerifSetPageSize(old)
	oldMin := z.VerifSetTreeMinSize(plan.MinSize)
	defer z.VerifSetTreeMinSize(oldMin)
	if plan.Persistent {
		t.path = filepath.Join(dir, "tree.buf")
		os.Remove(t.path)
		defer os.Remove(t.path)
	}
	defer func() {
		if r := recover(); r != nil {
			t.violate(prop, "panic", fmt.Sprintf("panic: %v", r))
			res.Violations = t.viol
		}
		if t.tree != nil {
			func() {
				defer func() { recover() }()
				t.tree.Close()
			}()
		}
		res.Steps = t.opIdx
		res.Extra = map[string]int{"splits": t.stats.splits, "recycled_pages": t.stats.recycled, "reopens": t.stats.reopens,
			"reopens_with_free_pages": t.stats.reopensWithFree, "deleted_keys": t.stats.deletedKeys, "growths": t.stats.growths,
			"delete_belows": t.stats.deleteBelows, "reused_pages": t.stats.reused, "fills_to_page_frontier": t.stats.frontierFills}
	}()
	if err := t.open(); err != nil {
		res.Abort = "open: " + err.Error()
		return
	}
	lastPages := t.tree.Stats().NumPages
	lastFree := t.tree.Stats().NumPagesFree
	lastAlloc := t.tree.Stats().Allocated
	for i, op := range plan.Ops {
		t.opIdx = i
		workerProgress.Add(1)
		switch op.K {
		case TSet:
			t.tree.Set(op.Key, op.Val)
			t.model[op.Key] = op.Val
			if g := t.tree.Get(op.Key); g != op.Val {
				t.violate(prop, "set-get", fmt.Sprintf("Get(%d)=%d right after Set(%d,%d)", op.Key, g, op.Key, op.Val))
			}
			t.neighbours(op.Key, prop)
		case TSetMany:
			for j := 0; j < op.N; j++ {
				k, v := op.Key+uint64(j)*op.Stride, op.Val+uint64(j)*op.VMul
				t.tree.Set(k, v)
				t.model[k] = v
			}
			// sample
			for j := 0; j < op.N; j += 1 + op.N/16 {
				k := op.Key + uint64(j)*op.Stride
				if g := t.tree.Get(k); g != t.model[k] {
					t.violate(prop, "set-get", fmt.Sprintf("Get(%d)=%d after bulk Set, reference %d", k, g, t.model[k]))
					break
				}
			}
		case TFillToFrontier:
			// the simulator owns the backing store: drive the tree to the page
			// frontier of its current buffer
			k := op.Key
			for guard := 0; guard < 400000; guard++ {
				st := t.tree.Stats()
				whole := st.Allocated / st.PageSize
				if st.NumPages >= whole-1-op.N {
					break
				}
				if _, dup := t.model[k]; !dup {
					t.tree.Set(k, op.Val)
					t.model[k] = op.Val
				}
				k++
			}
			t.stats.frontierFills++
		case TDeleteBelow:
			t.stats.deleteBelows++
			before := t.tree.Stats()
			t.tree.DeleteBelow(op.Val)
			var dead []uint64
			for k, v := range t.model {
				if v < op.Val {
					dead = append(dead, k)
				}
			}
			sort.Slice(dead, func(a, b int) bool { return dead[a] < dead[b] })
			for _, k := range dead {
				delete(t.model, k)
				if !t.gone[k] {
					t.gone[k] = true
					t.goneList = append(t.goneList, k)
				}
			}
			t.stats.deletedKeys += len(dead)
			for _, k := range dead {
				if g := t.tree.Get(k); g != 0 {
					t.violate(prop, "deletebelow-kept", fmt.Sprintf("DeleteBelow(%d) left key %d readable with value %d", op.Val, k, g))
					break
				}
			}
			// survivors unchanged (sample + neighbours of the dead)
			cnt := 0
			for k, v := range t.model {
				if g := t.tree.Get(k); g != v {
					t.violate(prop, "deletebelow-changed", fmt.Sprintf("DeleteBelow(%d) changed key %d: Get=%d, reference %d", op.Val, k, g, v))
					break
				}
				cnt++
				if cnt > 300 {
					break
				}
			}
			after := t.tree.Stats()
			if after.NumPagesFree > before.NumPagesFree {
				t.stats.recycled += after.NumPagesFree - before.NumPagesFree
			}
			if len(dead) > 0 || op.Val == 0 {
				t.fullCheck(prop, "after DeleteBelow")
			}
		case TIterRead:
			t.fullCheck(prop, "IterateKV")
		case TIterRewrite:
			t.tree.IterateKV(func(k, v uint64) uint64 {
				if k%op.Mod == op.Rem {
					return op.Val
				}
				return 0
			})
			for k := range t.model {
				if k%op.Mod == op.Rem {
					t.model[k] = op.Val
				}
			}
			t.fullCheck(prop, "after IterateKV rewrite")
		case TReset:
			t.tree.Reset()
			for k := range t.model {
				if !t.gone[k] {
					t.gone[k] = true
					t.goneList = append(t.goneList, k)
				}
			}
			t.model = map[uint64]uint64{}
			t.fullCheck(prop, "after Reset")
		case TGet:
			if g := t.tree.Get(op.Key); g != t.model[op.Key] {
				t.violate(prop, "get-value", fmt.Sprintf("Get(%d)=%d, reference value %d", op.Key, g, t.model[op.Key]))
			}
		case TReopen:
			if !plan.Persistent {
				continue
			}
			t.stats.reopens++
			before := t.tree.Stats()
			if before.NumPagesFree > 0 {
				t.stats.reopensWithFree++
			}
			if err := t.tree.Close(); err != nil {
				res.Abort = "close: " + err.Error()
				return
			}
			t.tree = nil
			if err := t.open(); err != nil {
				res.Abort = "reopen: " + err.Error()
				return
			}
			after := t.tree.Stats()
			b, a := before, after
			b.Allocated, a.Allocated = 0, 0
			if a != b && !(math.IsNaN(a.Occupancy) && math.IsNaN(b.Occupancy)) {
				t.violate("C16", "stats-differ", fmt.Sprintf("statistics before close %+v, after reopen %+v", before, after))
			}
			t.fullCheck("C16", "after reopen")
		}
		if len(t.viol) > 0 {
			break
		}
		st := t.tree.Stats()
		// recycled pages are reused before the tree takes fresh ones: an
		// operation that only inserts can extend the page frontier only when
		// the free list is empty, so afterwards no free page may be left
		if t.stats.reopens > 0 && (op.K == TSet || op.K == TSetMany) && st.NumPages > lastPages && st.NumPagesFree > 0 {
			t.violate("C16", "free-pages-not-reused", fmt.Sprintf("the tree grew from %d to %d pages although %d recycled pages are still free", lastPages, st.NumPages, st.NumPagesFree))
		}
		if op.K == TSet || op.K == TSetMany {
			if st.NumPagesFree < lastFree {
				t.stats.reused += lastFree - st.NumPagesFree
			}
		}
		lastFree = st.NumPagesFree
		if st.NumPages > lastPages {
			t.stats.splits += st.NumPages - lastPages
		}
		lastPages = st.NumPages
		if st.Allocated > lastAlloc {
			t.stats.growths++
		}
		lastAlloc = st.Allocated
	}
	if len(t.viol) == 0 {
		t.opIdx = len(plan.Ops) - 1
		t.fullCheck(prop, "final")
	}
	res.Violations = t.viol
	return
}
