// driver builds the worker binaries from /repo's current working tree, fans
// runs out over worker processes, aggregates, minimises violations, writes
// replay files and evidence. See DESIGN.md S-REPORT / S-EVIDENCE.
package main

import (
	"hash/fnv"
	"bufio"
	"bytes"
	"encoding/json"
	"fmt"
	"os"
	"os/exec"
	"path/filepath"
	"sort"
	"strconv"
	"strings"
	"sync"
	"time"
)

// verifRoot is the directory the check script lives in (/verif, or a snapshot
// of it for background sweeps); repoRoot is the repository under test.
var verifRoot = "/verif"

const repoRoot = "/repo"

type propSpec struct {
	ID       string
	Engine   string // cachesim | zsim
	Profiles []string
	Race     bool
	Quick    int // seconds of exploration
	Thorough int
}

var props = map[string]*propSpec{
	"C01": {ID: "C01", Engine: "cachesim", Profiles: []string{"collide", "mixed", "collide", "overwrite"}, Quick: 25, Thorough: 420},
	"C02": {ID: "C02", Engine: "cachesim", Profiles: []string{"overwrite", "mixed", "overwrite", "ttl", "collide"}, Quick: 25, Thorough: 420},
	"C03": {ID: "C03", Engine: "cachesim", Profiles: []string{"capacity"}, Quick: 25, Thorough: 420},
	"C04": {ID: "C04", Engine: "cachesim", Profiles: []string{"mixed", "overwrite", "close", "mixed", "ttl"}, Quick: 25, Thorough: 420},
	"C05": {ID: "C05", Engine: "cachesim", Profiles: []string{"delete"}, Quick: 25, Thorough: 420},
	"C06": {ID: "C06", Engine: "cachesim", Profiles: []string{"single"}, Quick: 25, Thorough: 420},
	"C07": {ID: "C07", Engine: "cachesim", Profiles: []string{"ttl", "single", "singlettl", "singlettl"}, Quick: 25, Thorough: 420},
	"C08": {ID: "C08", Engine: "cachesim", Profiles: []string{"race"}, Race: true, Quick: 35, Thorough: 600},
	"C09": {ID: "C09", Engine: "cachesim", Profiles: []string{"capacity"}, Quick: 25, Thorough: 420},
	"C10": {ID: "C10", Engine: "zsim", Profiles: []string{"tree"}, Quick: 20, Thorough: 420},
	"C11": {ID: "C11", Engine: "zsim", Profiles: []string{"buffer"}, Quick: 20, Thorough: 420},
	"C12": {ID: "C12", Engine: "zsim", Profiles: []string{"alloc"}, Quick: 20, Thorough: 420},
	"C13": {ID: "C13", Engine: "cachesim", Profiles: []string{"agree", "agree", "mixed"}, Quick: 25, Thorough: 420},
	"C14": {ID: "C14", Engine: "cachesim", Profiles: []string{"ttl", "ttl", "rewrite"}, Quick: 25, Thorough: 420},
	"C15": {ID: "C15", Engine: "cachesim", Profiles: []string{"close"}, Quick: 25, Thorough: 420},
	"C16": {ID: "C16", Engine: "zsim", Profiles: []string{"treereopen"}, Quick: 20, Thorough: 420},
	"C17": {ID: "C17", Engine: "cachesim", Profiles: []string{"metrics"}, Quick: 25, Thorough: 420},
}

type violation struct {
	Prop string `json:"prop"`
	Rule string `json:"rule"`
	Msg  string `json:"msg"`
	Seq  uint64 `json:"seq"`
}

type runResult struct {
	Seed       uint64      `json:"seed"`
	Profile    string      `json:"profile"`
	Violations []violation `json:"violations"`
	Abort      string      `json:"abort"`
	Steps      int         `json:"steps"`
	Diverged   string      `json:"diverged"`
	PanicTxt   string      `json:"panic"`
	LeftTasks  int         `json:"left_tasks"`
}

type summary struct {
	Runs       int            `json:"runs"`
	Steps      int64          `json:"steps"`
	SimNanos   int64          `json:"sim_ns"`
	Decisions  int64          `json:"decisions"`
	Probes     map[string]int `json:"probes"`
	ProbeRuns  map[string]int `json:"probe_runs"`
	Strategies map[string]int `json:"strategies"`
	Profiles   map[string]int `json:"profiles"`
	Aborts     map[string]int `json:"aborts"`
	FPs        []uint64       `json:"fps"`
	Pairs      []int          `json:"pairs"`
	Faults     map[string]int `json:"faults"`
	Samples    []any          `json:"samples"`
	WallMs     int64          `json:"wall_ms"`
	Extra      map[string]any `json:"extra"`
}

type outLine struct {
	T     string          `json:"t"`
	I     uint64          `json:"i"`
	Seed  uint64          `json:"seed"`
	Res   *runResult      `json:"res"`
	NT    bool            `json:"nt"`
	Sum   *summary        `json:"sum"`
	Plan  json.RawMessage `json:"plan"`
	Tape  json.RawMessage `json:"tape"`
	Trace []string        `json:"trace"`
}

type job struct {
	Mode     string   `json:"mode"`
	Prop     string   `json:"prop"`
	Profiles []string `json:"profiles"`
	Seed     uint64   `json:"seed"`
	Start    uint64   `json:"start"`
	Stride   uint64   `json:"stride"`
	MaxRuns  int      `json:"max_runs"`
	Deadline int64    `json:"deadline_unix_ms"`
	Out      string   `json:"out"`
	Replay   string   `json:"replay,omitempty"`
	Lenient  bool     `json:"lenient,omitempty"`
	Trace    bool     `json:"trace,omitempty"`
	StopOnV  bool     `json:"stop_on_violation"`
	Samples  int      `json:"samples"`
}

type finding struct {
	Property string `json:"property"`
	Status   string `json:"status"` // open | fixed
	Rule     string `json:"rule"`
	Match    string `json:"match,omitempty"` // substring of the minimised violation message
	Commit   string `json:"commit,omitempty"`
	What     string `json:"what"`
}

type findingsFile struct {
	Findings []finding `json:"findings"`
}

func env() []string {
	e := os.Environ()
	e = append(e, "GOFLAGS=-mod=mod", "GOPROXY=off", "GOSUMDB=off", "GOTOOLCHAIN=local", "CGO_ENABLED=1")
	return e
}

func die2(format string, a ...any) {
	fmt.Fprintf(os.Stderr, "MACHINERY: "+format+"\n", a...)
	cleanupBuild()
	os.Exit(2)
}

// buildDir is this invocation's own directory for binaries, the instrumented
// copy of the repository and the temporary module file: two checks running at
// the same time must not overwrite each other's build. (The Go build cache is
// shared, so a rebuild of an unchanged tree only links.)
func buildDir() string {
	if d := os.Getenv("VERIF_BUILD_DIR"); d != "" {
		// debugging scripts that want to keep the binaries
		os.MkdirAll(d, 0o755)
		return d
	}
	d := filepath.Join(verifRoot, ".build", fmt.Sprintf("p%d", os.Getpid()))
	os.MkdirAll(d, 0o755)
	return d
}

func cleanupBuild() {
	os.RemoveAll(filepath.Join(verifRoot, ".build", fmt.Sprintf("p%d", os.Getpid())))
	// scratch directories of storage-engine workers that were killed (deadline,
	// watchdog) or died before removing theirs
	if ms, _ := filepath.Glob(fmt.Sprintf("/dev/shm/verif-zsim-scratch-p%d-*", os.Getpid())); len(ms) > 0 {
		for _, m := range ms {
			os.RemoveAll(m)
		}
	}
	// directories left behind by invocations that were killed
	ents, _ := os.ReadDir(filepath.Join(verifRoot, ".build"))
	for _, e := range ents {
		n := e.Name()
		if !e.IsDir() || !strings.HasPrefix(n, "p") {
			continue
		}
		pid, err := strconv.Atoi(n[1:])
		if err != nil {
			continue
		}
		if _, err := os.Stat(fmt.Sprintf("/proc/%d", pid)); err != nil {
			os.RemoveAll(filepath.Join(verifRoot, ".build", n))
		}
	}
}

func goBin() string {
	for _, p := range []string{"/usr/local/bin/go1.26.8", "/opt/veriftools/go1.26.8/bin/go"} {
		if _, err := os.Stat(p); err == nil {
			return p
		}
	}
	return "go1.26.8"
}

// autoNote says how the last build treated the mechanically inserted
// preemption points (for the evidence file).
var autoNote string

// build compiles the worker test binary of an engine from /repo's current tree.
// For the cache engine the tree is first copied and instrumented by
// cmd/autoyield (preemption points in front of every mutex and atomic
// operation of the root package, also those a change has added); if that copy
// does not build - the rewrite is mechanical and a change may contain a
// construct it mishandles - the plain tree is used and the evidence says so.
func build(engine string, race bool) string {
	out := filepath.Join(buildDir(), engine)
	if race {
		out += "-race"
	}
	out += ".test"
	repo := repoRoot
	if alt := os.Getenv("VERIF_REPO"); alt != "" {
		// background sweeps (vp run --with-repo) build against a snapshot of the
		// repository instead of /repo itself; registered checks never set this
		repo = alt
	}
	if engine == "cachesim" && os.Getenv("VERIF_AUTOYIELD") != "0" {
		inst := filepath.Join(buildDir(), "repo-auto")
		tool := filepath.Join(buildDir(), "autoyield")
		tb := exec.Command(goBin(), "build", "-o", tool, "./cmd/autoyield")
		tb.Dir = filepath.Join(verifRoot, "sim")
		tb.Env = env()
		if o, err := tb.CombinedOutput(); err != nil {
			die2("build of the autoyield tool failed: %v\n%s", err, o)
		}
		ay := exec.Command(tool, repo, inst)
		ay.Env = env()
		if o, err := ay.CombinedOutput(); err != nil {
			autoNote = "automatic preemption points: not inserted (" + strings.TrimSpace(firstLines(string(o), 3)) + "); hand-placed yield sites only"
		} else if msg, ok := func() (string, bool) {
			if os.Getenv("VERIF_AUTOYIELD_TESTFAIL") != "" {
				// self-test of the fall-back path: break the instrumented copy on purpose
				os.WriteFile(filepath.Join(inst, "verif_auto_broken.go"), []byte("package ristretto\nfunc init() { undefinedIdentifier() }\n"), 0o644)
			}
			return tryBuild(engine, race, out, inst, "verif,autoyield")
		}(); ok {
			autoNote = "automatic preemption points: " + strings.TrimSpace(string(o))
			return out
		} else {
			autoNote = "automatic preemption points: the instrumented copy did not build, hand-placed yield sites only (" + firstLines(msg, 4) + ")"
		}
	}
	msg, ok := tryBuild(engine, race, out, repo, "verif")
	if !ok {
		die2("build of %s failed:\n%s", engine, msg)
	}
	return out
}

func tryBuild(engine string, race bool, out, repo, tags string) (string, bool) {
	args := []string{"test", "-c", "-tags", tags, "-o", out}
	if repo != repoRoot {
		mod, err := os.ReadFile(filepath.Join(verifRoot, "sim", "go.mod"))
		if err != nil {
			die2("read go.mod: %v", err)
		}
		altMod := filepath.Join(buildDir(), "alt.mod")
		os.WriteFile(altMod, bytes.ReplaceAll(mod, []byte("=> "+repoRoot), []byte("=> "+repo)), 0o644)
		if sum, err := os.ReadFile(filepath.Join(repo, "go.sum")); err == nil {
			os.WriteFile(filepath.Join(buildDir(), "alt.sum"), sum, 0o644)
		}
		args = append(args, "-modfile="+altMod)
	}
	if race {
		args = append(args, "-race")
	}
	args = append(args, "./"+engine)
	cmd := exec.Command(goBin(), args...)
	cmd.Dir = filepath.Join(verifRoot, "sim")
	cmd.Env = env()
	var buf bytes.Buffer
	cmd.Stdout, cmd.Stderr = &buf, &buf
	if err := cmd.Run(); err != nil {
		return fmt.Sprintf("%v\n%s", err, buf.String()), false
	}
	return "", true
}

type workerState struct {
	id      int
	next    uint64
	outPath string
	crashes []crash
}

type crash struct {
	Idx    uint64
	Seed   uint64
	Kind   string // race | panic | hang | crash
	Stderr string
}

func readLines(path string, from int64) ([]outLine, int64) {
	f, err := os.Open(path)
	if err != nil {
		return nil, from
	}
	defer f.Close()
	f.Seek(from, 0)
	var out []outLine
	r := bufio.NewReaderSize(f, 1<<20)
	pos := from
	for {
		line, err := r.ReadBytes('\n')
		if err != nil {
			break
		}
		pos += int64(len(line))
		var l outLine
		if json.Unmarshal(line, &l) == nil {
			out = append(out, l)
		}
	}
	return out, pos
}

func runWorker(bin string, j *job, jobPath string, race bool, timeout time.Duration) (stderr string, err error) {
	b, _ := json.Marshal(j)
	if err := os.WriteFile(jobPath, b, 0o644); err != nil {
		die2("write job: %v", err)
	}
	cmd := exec.Command(bin, "-test.run", "^TestWorker$", "-test.timeout", "0", "-test.count", "1")
	cmd.Env = append(env(), "VERIF_JOB="+jobPath, fmt.Sprintf("VERIF_SCRATCH_TAG=p%d", os.Getpid()))
	if os.Getenv("GOMAXPROCS") == "" {
		// one OS thread of Go code per worker process: the simulator releases one
		// goroutine at a time anyway, and hand-offs between goroutines on one P
		// avoid a futex round trip each (measured: 3x the runs per second); the
		// driver runs one worker process per core
		cmd.Env = append(cmd.Env, "GOMAXPROCS=1")
	}
	if race {
		cmd.Env = append(cmd.Env, "GORACE=halt_on_error=1 history_size=3")
	}
	cmd.Dir = filepath.Join(verifRoot, ".work")
	var buf bytes.Buffer
	cmd.Stdout, cmd.Stderr = &buf, &buf
	if err := cmd.Start(); err != nil {
		die2("start worker: %v", err)
	}
	done := make(chan error, 1)
	go func() { done <- cmd.Wait() }()
	select {
	case err = <-done:
	case <-time.After(timeout):
		cmd.Process.Kill()
		<-done
		err = fmt.Errorf("driver watchdog: worker killed after %v", timeout)
	}
	s := buf.String()
	if len(s) > 6000 {
		s = s[:3000] + "\n...\n" + s[len(s)-3000:]
	}
	return s, err
}

type agg struct {
	sum        summary
	fps        map[uint64]bool
	pairs      map[int]bool
	viols      []outLine // runs with violations of the checked property
	collateral map[string]int
	aborted    int
	abortKinds map[string]int
	crashes    []crash
	diverged   int
	// worker processes that died before starting a run (machinery trouble)
	machinery    int
	machineryMsg string
}

func newAgg() *agg {
	return &agg{fps: map[uint64]bool{}, pairs: map[int]bool{}, collateral: map[string]int{}, abortKinds: map[string]int{},
		sum: summary{Probes: map[string]int{}, ProbeRuns: map[string]int{}, Strategies: map[string]int{}, Profiles: map[string]int{}, Aborts: map[string]int{}, Faults: map[string]int{}, Extra: map[string]any{}}}
}

func addMap(dst, src map[string]int) {
	for k, v := range src {
		dst[k] += v
	}
}

func (a *agg) addSummary(s *summary) {
	a.sum.Runs += s.Runs
	a.sum.Steps += s.Steps
	a.sum.SimNanos += s.SimNanos
	a.sum.Decisions += s.Decisions
	addMap(a.sum.Probes, s.Probes)
	addMap(a.sum.ProbeRuns, s.ProbeRuns)
	addMap(a.sum.Strategies, s.Strategies)
	addMap(a.sum.Profiles, s.Profiles)
	addMap(a.sum.Aborts, s.Aborts)
	addMap(a.sum.Faults, s.Faults)
	for _, f := range s.FPs {
		a.fps[f] = true
	}
	for _, p := range s.Pairs {
		a.pairs[p] = true
	}
	if len(a.sum.Samples) < 3 {
		a.sum.Samples = append(a.sum.Samples, s.Samples...)
	}
	for k, v := range s.Extra {
		switch x := v.(type) {
		case float64:
			if old, ok := a.sum.Extra[k].(float64); ok {
				a.sum.Extra[k] = old + x
			} else {
				a.sum.Extra[k] = x
			}
		default:
			a.sum.Extra[k] = v
		}
	}
}

func classifyCrash(stderr string) string {
	switch {
	case strings.Contains(stderr, "WARNING: DATA RACE"):
		return "race"
	case strings.Contains(stderr, "fatal error: all goroutines are asleep"), strings.Contains(stderr, "driver watchdog"):
		return "hang"
	case strings.Contains(stderr, "panic:"), strings.Contains(stderr, "fatal error:"):
		return "panic"
	}
	return "crash"
}

func explore(spec *propSpec, bin string, seed uint64, seconds int, workers int, maxRuns int) *agg {
	a := newAgg()
	workDir := filepath.Join(verifRoot, ".work", spec.ID)
	os.RemoveAll(workDir)
	os.MkdirAll(workDir, 0o755)
	deadline := time.Now().Add(time.Duration(seconds) * time.Second)
	var mu sync.Mutex
	var wg sync.WaitGroup
	for w := 0; w < workers; w++ {
		wg.Add(1)
		go func(w int) {
			defer wg.Done()
			next := uint64(w)
			outPath := filepath.Join(workDir, fmt.Sprintf("out%d.jsonl", w))
			jobPath := filepath.Join(workDir, fmt.Sprintf("job%d.json", w))
			var pos int64
			restarts := 0
			for time.Now().Before(deadline) && restarts < 200 {
				j := &job{Mode: "batch", Prop: spec.ID, Profiles: spec.Profiles, Seed: seed, Start: next, Stride: uint64(workers),
					MaxRuns: maxRuns, Deadline: deadline.UnixMilli(), Out: outPath, Samples: 1}
				stderr, err := runWorker(bin, j, jobPath, spec.Race, time.Until(deadline)+150*time.Second)
				lines, npos := readLines(outPath, pos)
				pos = npos
				var lastStart *outLine
				lastDone := false // the run announced by lastStart has reported its result
				finished := false
				sawHang := false
				mu.Lock()
				for i := range lines {
					l := &lines[i]
					switch l.T {
					case "start":
						lastStart = l
						lastDone = false
					case "hang":
						a.crashes = append(a.crashes, crash{Idx: l.I, Seed: l.Seed, Kind: "hang", Stderr: "a task neither yielded nor blocked within the watchdog period (non-termination)"})
						sawHang = true
					case "end":
						lastDone = true
					case "run":
						if l.Res == nil {
							continue
						}
						own := false
						for _, v := range l.Res.Violations {
							if v.Prop == spec.ID {
								own = true
							} else {
								a.collateral[v.Prop+"/"+v.Rule]++
							}
						}
						if own {
							a.viols = append(a.viols, *l)
						}
						if l.Res.Abort != "" {
							a.aborted++
							a.abortKinds[l.Res.Abort]++
						}
						if l.Res.Diverged != "" {
							a.diverged++
						}
					case "summary":
						a.addSummary(l.Sum)
						next = l.I
						finished = true
					}
				}
				if !finished {
					// the worker died inside a run
					kind := classifyCrash(stderr)
					c := crash{Kind: kind, Stderr: stderr}
					if lastStart != nil {
						c.Idx, c.Seed = lastStart.I, lastStart.Seed
						next = lastStart.I + uint64(workers)
					} else {
						next += uint64(workers)
					}
					if (lastStart == nil || lastDone) && !sawHang {
						// died outside any run (before the first, or between two): trouble of the machinery (bad job,
						// binary that does not start), never a verdict about the code
						a.machinery++
						if a.machineryMsg == "" {
							a.machineryMsg = firstLines(stderr, 12)
						}
					} else if (err != nil || kind != "crash") && !sawHang {
						a.crashes = append(a.crashes, c)
					}
				}
				mu.Unlock()
				restarts++
				if maxRuns > 0 && finished {
					break
				}
			}
		}(w)
	}
	wg.Wait()
	return a
}

func loadFindings() []finding {
	b, err := os.ReadFile(filepath.Join(verifRoot, "known_findings.json"))
	if err != nil {
		return nil
	}
	var ff findingsFile
	if json.Unmarshal(b, &ff) != nil {
		die2("known_findings.json does not parse")
	}
	return ff.Findings
}

func repoRev() string {
	root := repoRoot
	if alt := os.Getenv("VERIF_REPO"); alt != "" {
		root = alt
	}
	out, _ := exec.Command("git", "-C", root, "rev-parse", "--short", "HEAD").Output()
	rev := strings.TrimSpace(string(out))
	st, _ := exec.Command("git", "-C", root, "status", "--porcelain", "--untracked-files=no").Output()
	if len(bytes.TrimSpace(st)) > 0 {
		// identify the working tree by its difference from HEAD, so that two
		// different modified trees are told apart
		d, _ := exec.Command("git", "-C", root, "diff", "HEAD").Output()
		h := fnv.New32a()
		h.Write(d)
		rev += fmt.Sprintf("+dirty-%08x", h.Sum32())
	}
	return rev
}

// minimiseAndWrite shrinks one violating run and writes its replay file.
// Returns the path and the minimised message.
func minimiseAndWrite(spec *propSpec, bin string, l *outLine, rule string, vseed uint64, budgetSec int) (string, string, bool) {
	os.MkdirAll(filepath.Join(verifRoot, "replays"), 0o755)
	path := filepath.Join(verifRoot, "replays", fmt.Sprintf("%s-%d.json", spec.ID, l.Seed))
	rf := map[string]any{"property": spec.ID, "rule": rule, "engine": spec.Engine, "race": spec.Race, "verif_seed": vseed,
		"run_index": l.I, "run_seed": l.Seed, "profile": l.Res.Profile, "repo_rev": repoRev(), "minimised": false}
	for _, v := range l.Res.Violations {
		if v.Prop == spec.ID && v.Rule == rule {
			rf["message"] = v.Msg
			break
		}
	}
	b, _ := json.MarshalIndent(rf, "", " ")
	os.WriteFile(path, b, 0o644)
	msg, _ := rf["message"].(string)
	workDir := filepath.Join(verifRoot, ".work", spec.ID)
	out := filepath.Join(workDir, "min.jsonl")
	os.Remove(out)
	j := &job{Mode: "minimise", Prop: spec.ID, Replay: path, Out: out, MaxRuns: budgetSec}
	runWorker(bin, j, filepath.Join(workDir, "minjob.json"), spec.Race, time.Duration(budgetSec+120)*time.Second)
	minimised := false
	if mb, err := os.ReadFile(path + ".min"); err == nil {
		// verify the minimised file replays strictly in a fresh process
		tmp := path + ".try"
		os.WriteFile(tmp, mb, 0o644)
		ok, m2, _ := replayFile(spec, bin, tmp)
		if ok {
			os.Rename(tmp, path)
			minimised = true
			if m2 != "" {
				msg = m2
			}
		} else {
			os.Remove(tmp)
		}
		os.Remove(path + ".min")
	}
	return path, msg, minimised
}

// replayFile runs a replay file in a fresh worker; ok means the recorded
// property+rule fired again.
func replayFile(spec *propSpec, bin string, path string) (ok bool, msg string, machinery string) {
	b, err := os.ReadFile(path)
	if err != nil {
		return false, "", "cannot read replay file"
	}
	var rf struct {
		Property string `json:"property"`
		Rule     string `json:"rule"`
	}
	if json.Unmarshal(b, &rf) != nil {
		return false, "", "replay file does not parse"
	}
	workDir := filepath.Join(verifRoot, ".work", spec.ID)
	os.MkdirAll(workDir, 0o755)
	out := filepath.Join(workDir, fmt.Sprintf("replay-%d.jsonl", time.Now().UnixNano()))
	j := &job{Mode: "replay", Prop: spec.ID, Replay: path, Out: out, Trace: true}
	stderr, werr := runWorker(bin, j, out+".job", spec.Race, 10*time.Minute)
	lines, _ := readLines(out, 0)
	defer os.Remove(out)
	defer os.Remove(out + ".job")
	for _, l := range lines {
		if l.T == "hang" {
			if rf.Rule == "hang" {
				return true, "a call neither returned nor yielded within the watchdog period (non-termination)", ""
			}
			return false, "", "worker hung"
		}
		if l.T == "run" && l.Res != nil {
			if l.Res.Diverged != "" {
				return false, "", "tape divergence: " + l.Res.Diverged
			}
			for _, v := range l.Res.Violations {
				if v.Prop == rf.Property && v.Rule == rf.Rule {
					return true, v.Msg, ""
				}
			}
			return false, "", ""
		}
	}
	// crashed: race / panic flavours
	if werr != nil {
		kind := classifyCrash(stderr)
		if (rf.Property == "C08" || rf.Property == "C10" || rf.Property == "C11" || rf.Property == "C12" || rf.Property == "C16") && (kind == rf.Rule) {
			return true, firstLines(stderr, 30), ""
		}
		return false, "", "worker failed: " + firstLines(stderr, 10)
	}
	return false, "", "no result"
}

func firstLines(s string, n int) string {
	ls := strings.Split(s, "\n")
	if len(ls) > n {
		ls = ls[:n]
	}
	return strings.Join(ls, "\n")
}

func writeEvidence(spec *propSpec, tier string, seed uint64, a *agg, wall float64, nviol int, notes []string) {
	rule := "One case = one simulated run (one seed: configuration, client programs, schedule, clock and fault decisions all drawn from it). " +
		"Distinct = distinct schedule fingerprint (hash of the sequence of (task, yield site, select case) at every scheduling step plus every clock advance). " +
		"Non-trivial = " + nontrivialRule[spec.ID] + "."
	pairs := len(a.pairs)
	cov := map[string]any{
		"evaluations":         a.sum.Runs,
		"distinct_nontrivial": len(a.fps),
		"rule":                rule,
		"samples":             a.sum.Samples,
		"runs_per_hour":       int(float64(a.sum.Runs) / wall * 3600),
		"seeds": map[string]any{"verif_seed": seed, "run_seed": "splitmix(verif_seed, run index)", "run_indices": fmt.Sprintf("0..%d (striped over workers)", a.sum.Runs),
			"distinct_run_seeds": a.sum.Runs},
		"scheduler_steps":  a.sum.Steps,
		"decisions":        a.sum.Decisions,
		"simulated_time_s": float64(a.sum.SimNanos) / 1e9,
		"aborted_runs":     a.aborted + len(a.crashes),
		"abort_kinds":      a.abortKinds,
		"collateral":       a.collateral,
		"yield_site_pairs": pairs,
		"fault_counts":     a.sum.Faults,
		"probes":           a.sum.Probes,
		"probe_runs":       a.sum.ProbeRuns,
		"strategies":       a.sum.Strategies,
		"profiles":         a.sum.Profiles,
		"real_vs_stub":     realVsStub[spec.Engine],
		"race_detector":    spec.Race,
		"exhaustive":       false,
		"notes":            notes,
	}
	for k, v := range a.sum.Extra {
		cov[k] = v
	}
	if len(a.crashes) > 0 {
		var cs []map[string]any
		for i, c := range a.crashes {
			if i == 3 {
				break
			}
			cs = append(cs, map[string]any{"kind": c.Kind, "run_seed": c.Seed, "stderr_head": firstLines(c.Stderr, 25)})
		}
		cov["worker_crashes"] = len(a.crashes)
		cov["crash_samples"] = cs
	}
	ev := map[string]any{
		"property_id": spec.ID, "tier": tier, "seed": seed, "level": "exploration", "coverage": cov,
		"assumptions": assumptions[spec.Engine],
		"wall_s":      wall, "violations": nviol,
	}
	b, _ := json.MarshalIndent(ev, "", " ")
	evDir := filepath.Join(verifRoot, "evidence")
	if d := os.Getenv("VERIF_EVIDENCE_DIR"); d != "" {
		// sensitivity runs against deliberately broken trees must not overwrite
		// the evidence of the registered checks
		evDir = d
	}
	os.MkdirAll(evDir, 0o755)
	if err := os.WriteFile(filepath.Join(evDir, spec.ID+".json"), b, 0o644); err != nil {
		die2("write evidence: %v", err)
	}
}

var assumptions = map[string][]string{
	"cachesim": {
		"preemption happens at the hand-placed yield sites of the verif hooks (before every outermost lock, right after a task has released its last lock, around every channel hand-off) and at the sites cmd/autoyield inserts into a scratch copy of the tree (before every mutex and atomic operation of the root package, never while a lock is held; see the notes for whether they were inserted in this run); code between two sites is atomic in simulation",
		"built with go1.26.8 (testing/synctest), the repository's own toolchain is 1.25.0",
		"the sync.Pool inside ringBuffer is replaced by a simulator-owned stripe set; the Go scheduler, select choice, wall clock and map iteration order are simulator decisions",
		"sampling, not enumeration: a clean batch is evidence, not proof",
	},
	"zsim": {
		"storage engine runs single-task histories; the simulator owns page size, backing store, growth and reopen instants, not the kernel's durability",
		"allocator engine preempts only at the verif yield sites around the packed atomic add and the slow-path mutex",
		"sampling, not enumeration: a clean batch is evidence, not proof",
	},
}

var realVsStub = map[string]map[string]string{
	"cachesim": {
		"cache.go, store.go, policy.go, ttl.go, ring.go (stripe logic), sketch.go, z/bbloom.go, z/z.go": "real",
		"goroutine scheduling":               "stub: seeded scheduler releasing one goroutine at a time at yield sites (hand-placed behind the verif tag, plus mechanically inserted ones in a scratch copy of the tree)",
		"select in the two background loops": "stub: one ready case chosen by the simulator",
		"wall clock / ticker":                "stub: testing/synctest fake clock advanced by the simulator; the ticker itself is real",
		"map iteration order (fillSample, ttl cleanup, lockedMap.Clear, IterValues)": "stub: order chosen by the simulator",
		"sync.Pool of ringBuffer":                     "stub: simulator-owned stripe set (which stripe, when lost)",
		"user callbacks, KeyToHash in collision runs": "harness",
	},
	"zsim": {
		"z/allocator.go, z/btree.go, z/buffer.go, z/file*.go, z/mmap*.go, z/simd": "real (files in a per-run scratch directory)",
		"goroutine scheduling (allocator engine)":                                 "stub: seeded scheduler",
		"page size, initial capacity, auto-mmap threshold, reopen instants":       "simulator decisions",
	},
}

var nontrivialRule = map[string]string{
	"C01": "a Get hit in a run that also saw an eviction, rejection, sweep removal or a primary-hash collision",
	"C02": "a Get returned a value that the cache (earlier or later in the run) passed to OnExit",
	"C03": "at least one admission that needed an eviction or ended in a rejection",
	"C04": "at least one dropped Set, rejection, eviction, sweep removal or buffered item drained by Clear",
	"C05": "a Del ran while an earlier insert of the same key was still buffered, and a Wait followed it",
	"C06": "more than two reads were compared against the reference model",
	"C07": "a read before expiry hit a TTL item, or a read at/after the expiration instant was checked",
	"C08": "more than 20 scheduling steps under the race detector",
	"C09": "at least one admission that needed an eviction or ended in a rejection",
	"C10": "the run performed at least one DeleteBelow that removed a key and at least one node split",
	"C11": "the run grew the buffer at least once or sorted at least two slices",
	"C12": "at least two tasks overshot the same chunk (were between the atomic add and the slow path together)",
	"C13": "a quiescent point was checked in a run with an eviction, rejection, sweep removal or dropped write",
	"C14": "the sweep examined at least one key (removed or skipped it)",
	"C15": "post-Close probes or a post-Clear freshness check ran",
	"C16": "a reopen happened with at least one recycled page",
	"C17": "the conservation laws were evaluated at a quiescent point with metrics enabled",
}

func check(id, tier string) int {
	spec := props[id]
	if spec == nil {
		die2("unknown property %s", id)
	}
	seed := uint64(1)
	if s := os.Getenv("VERIF_SEED"); s != "" {
		if v, err := strconv.ParseUint(s, 10, 64); err == nil {
			seed = v
		}
	}
	seconds := spec.Quick
	if tier != "thorough" {
		// quick tier: one run in eight uses the "+deep" variant of its profile, so
		// that states needing a long history are not left to the thorough tier alone
		cp := *spec
		cp.Profiles = nil
		for i := 0; i < 7; i++ {
			cp.Profiles = append(cp.Profiles, spec.Profiles...)
		}
		for _, p := range spec.Profiles {
			cp.Profiles = append(cp.Profiles, p+"+deep")
		}
		spec = &cp
	}
	if tier == "thorough" {
		seconds = spec.Thorough
	}
	if s := os.Getenv("VERIF_SECONDS"); s != "" {
		if v, err := strconv.Atoi(s); err == nil {
			seconds = v
		}
	}
	maxRuns := 0
	if s := os.Getenv("VERIF_MAXRUNS"); s != "" {
		maxRuns, _ = strconv.Atoi(s)
	}
	workers := 16
	if s := os.Getenv("VERIF_WORKERS"); s != "" {
		workers, _ = strconv.Atoi(s)
	}
	if tier == "thorough" {
		// thorough tier: one run in three uses the "+deep" variant of its profile
		// (longer programs, more keys and clients; cachesim/plan.go)
		cp := *spec
		cp.Profiles = append(append([]string{}, spec.Profiles...), spec.Profiles...)
		for _, p := range spec.Profiles {
			cp.Profiles = append(cp.Profiles, p+"+deep")
		}
		spec = &cp
	}
	if s := os.Getenv("VERIF_PROFILES"); s != "" {
		// experiments only: explore the given profiles instead of the registered ones
		cp := *spec
		cp.Profiles = strings.Split(s, ",")
		spec = &cp
	}
	t0 := time.Now()
	bin := build(spec.Engine, spec.Race)
	buildS := time.Since(t0).Seconds()
	a := explore(spec, bin, seed, seconds, workers, maxRuns)
	if a.sum.Runs == 0 && len(a.crashes) == 0 {
		die2("no run completed%s", map[bool]string{true: ": worker processes died before their first run:\n" + a.machineryMsg, false: ""}[a.machinery > 0])
	}
	var notes []string
	notes = append(notes, fmt.Sprintf("build %.1fs, exploration budget %ds on %d worker processes", buildS, seconds, workers))
	if autoNote != "" {
		notes = append(notes, autoNote)
	}

	// violations of this property, grouped by rule
	byRule := map[string][]*outLine{}
	var rules []string
	for i := range a.viols {
		l := &a.viols[i]
		seen := map[string]bool{}
		for _, v := range l.Res.Violations {
			if v.Prop == spec.ID && !seen[v.Rule] {
				seen[v.Rule] = true
				if len(byRule[v.Rule]) == 0 {
					rules = append(rules, v.Rule)
				}
				byRule[v.Rule] = append(byRule[v.Rule], l)
			}
		}
	}
	sort.Strings(rules)
	findings := loadFindings()
	exit := 0
	nviol := 0
	knownPrinted := map[int]bool{}
	for _, rule := range rules {
		ls := byRule[rule]
		sort.Slice(ls, func(i, j int) bool { return ls[i].Res.Steps < ls[j].Res.Steps })
		l := ls[0]
		path, msg, minimised := minimiseAndWrite(spec, bin, l, rule, seed, 40)
		known := -1
		for fi, f := range findings {
			if f.Status == "open" && f.Property == spec.ID && f.Rule == rule && (f.Match == "" || strings.Contains(msg, f.Match)) {
				known = fi
			}
		}
		if known >= 0 {
			if !knownPrinted[known] {
				fmt.Printf("KNOWN-FINDING: property=%s %s (rule %s, %d runs, example replay %s)\n", spec.ID, findings[known].What, rule, len(ls), path)
				knownPrinted[known] = true
			}
			continue
		}
		nviol += len(ls)
		exit = 1
		fmt.Printf("VIOLATION property=%s replay=%s\n", spec.ID, path)
		fmt.Printf("  rule=%s runs=%d minimised=%v run_seed=%d\n  %s\n", rule, len(ls), minimised, l.Seed, msg)
	}
	// crashes: data races, panics, hangs decide C08 only
	if len(a.crashes) > 0 {
		kinds := map[string][]crash{}
		for _, c := range a.crashes {
			kinds[c.Kind] = append(kinds[c.Kind], c)
		}
		for kind, cs := range kinds {
			// the z library aborts the process on a failed internal assertion
			// (log.Fatal): for the z properties a dead worker is a failed run
			zCrash := spec.Engine == "zsim" && (kind == "hang" || kind == "panic" || kind == "crash")
			if spec.ID != "C08" && !zCrash {
				a.collateral["C08/"+kind] += len(cs)
				continue
			}
			c := cs[0]
			os.MkdirAll(filepath.Join(verifRoot, "replays"), 0o755)
			path := filepath.Join(verifRoot, "replays", fmt.Sprintf("%s-%d.json", spec.ID, c.Seed))
			prof := spec.Profiles[int(c.Idx%uint64(len(spec.Profiles)))]
			rf := map[string]any{"property": spec.ID, "rule": kind, "engine": spec.Engine, "race": spec.Race, "verif_seed": seed,
				"run_index": c.Idx, "run_seed": c.Seed, "profile": prof, "repo_rev": repoRev(), "minimised": false, "message": firstLines(c.Stderr, 60)}
			b, _ := json.MarshalIndent(rf, "", " ")
			os.WriteFile(path, b, 0o644)
			if kind == "hang" {
				// A run is a pure function of its seed: a genuine non-termination
				// replays. One that does not (the process was starved or paused
				// long enough to trip the wall-clock watchdog) is not reported.
				confirmed := false
				for _, hc := range cs[:min(len(cs), 3)] {
					rf["run_index"], rf["run_seed"] = hc.Idx, hc.Seed
					rf["profile"] = spec.Profiles[int(hc.Idx%uint64(len(spec.Profiles)))]
					hp := filepath.Join(verifRoot, "replays", fmt.Sprintf("%s-%d.json", spec.ID, hc.Seed))
					hb, _ := json.MarshalIndent(rf, "", " ")
					os.WriteFile(hp, hb, 0o644)
					if ok, _, _ := replayFile(spec, bin, hp); ok {
						confirmed, path, c = true, hp, hc
						break
					}
					os.Remove(hp)
				}
				if !confirmed {
					notes = append(notes, fmt.Sprintf("%d worker(s) tripped the wall-clock watchdog but the run(s) completed when replayed alone: machine load, not reported", len(cs)))
					continue
				}
			}
			nviol += len(cs)
			exit = 1
			fmt.Printf("VIOLATION property=%s replay=%s\n  rule=%s runs=%d run_seed=%d\n%s\n", spec.ID, path, kind, len(cs), c.Seed, indent(firstLines(c.Stderr, 40)))
		}
	}
	if a.diverged > 0 {
		notes = append(notes, fmt.Sprintf("%d runs reported a tape divergence", a.diverged))
	}
	if a.machinery > 0 {
		notes = append(notes, fmt.Sprintf("%d worker processes died before starting a run (machinery trouble, not counted as runs): %s", a.machinery, a.machineryMsg))
		fmt.Fprintf(os.Stderr, "MACHINERY: %d worker processes died before starting a run:\n%s\n", a.machinery, a.machineryMsg)
	}
	wall := time.Since(t0).Seconds()
	writeEvidence(spec, tier, seed, a, wall, nviol, notes)
	fmt.Printf("%s %s: runs=%d nontrivial_distinct=%d steps=%d sim_time=%.0fs aborted=%d crashes=%d collateral=%v wall=%.1fs exit=%d\n",
		spec.ID, tier, a.sum.Runs, len(a.fps), a.sum.Steps, float64(a.sum.SimNanos)/1e9, a.aborted, len(a.crashes), a.collateral, wall, exit)
	// keep the working directory small
	if exit == 0 && os.Getenv("VERIF_KEEP") == "" {
		os.RemoveAll(filepath.Join(verifRoot, ".work", spec.ID))
	}
	return exit
}

func indent(s string) string { return "    " + strings.ReplaceAll(s, "\n", "\n    ") }

func replay(path string) int {
	if abs, err := filepath.Abs(path); err == nil {
		path = abs
	}
	b, err := os.ReadFile(path)
	if err != nil {
		die2("cannot read %s", path)
	}
	var rf struct {
		Property string `json:"property"`
		Rule     string `json:"rule"`
		Race     bool   `json:"race"`
		Engine   string `json:"engine"`
	}
	if json.Unmarshal(b, &rf) != nil {
		die2("replay file does not parse")
	}
	spec := props[rf.Property]
	if spec == nil {
		die2("unknown property in replay file")
	}
	bin := build(spec.Engine, spec.Race)
	ok, msg, mach := replayFile(spec, bin, path)
	if mach != "" {
		var rr struct {
			RepoRev string `json:"repo_rev"`
		}
		json.Unmarshal(b, &rr)
		if strings.HasPrefix(mach, "tape divergence") && rr.RepoRev != repoRev() {
			// a different tree takes different decisions: the recorded schedule is
			// not feasible here, so the recorded violation does not occur
			fmt.Printf("replay of %s: recorded on tree %s, this tree is %s and leaves the recorded schedule (%s): the recorded violation (%s/%s) did not occur\n",
				path, rr.RepoRev, repoRev(), mach, rf.Property, rf.Rule)
			return 0
		}
		die2("%s", mach)
	}
	if ok {
		abs, _ := filepath.Abs(path)
		fmt.Printf("VIOLATION property=%s replay=%s\n  rule=%s\n  %s\n", rf.Property, abs, rf.Rule, msg)
		return 1
	}
	fmt.Printf("replay of %s: the recorded violation (%s/%s) did not occur on this tree\n", path, rf.Property, rf.Rule)
	return 0
}

func main() {
	if r := os.Getenv("VERIF_ROOT"); r != "" {
		verifRoot = r
	}
	if len(os.Args) < 2 {
		die2("usage: driver check <id> quick|thorough | replay <file> | build | selftest")
	}
	os.MkdirAll(filepath.Join(verifRoot, ".build"), 0o755)
	os.MkdirAll(filepath.Join(verifRoot, ".work"), 0o755)
	switch os.Args[1] {
	case "check":
		if len(os.Args) < 4 {
			die2("usage: driver check <id> quick|thorough")
		}
		rc := check(os.Args[2], os.Args[3])
		cleanupBuild()
		os.Exit(rc)
	case "replay":
		rc := replay(os.Args[2])
		cleanupBuild()
		os.Exit(rc)
	case "build":
		build("cachesim", false)
		build("cachesim", true)
		if _, err := os.Stat(filepath.Join(verifRoot, "sim", "zsim")); err == nil {
			if ents, _ := os.ReadDir(filepath.Join(verifRoot, "sim", "zsim")); len(ents) > 0 {
				build("zsim", false)
			}
		}
		cleanupBuild()
	case "selftest":
		rc := selftest()
		cleanupBuild()
		os.Exit(rc)
	default:
		die2("unknown command %s", os.Args[1])
	}
}
