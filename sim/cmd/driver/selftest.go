package main

import (
	"bufio"
	"bytes"
	"encoding/json"
	"fmt"
	"os"
	"os/exec"
	"path/filepath"
	"strconv"
)

// selftest: determinism of the simulator. The same run seeds are executed in
// separate processes at GOMAXPROCS 1, 4 and 16 (and, for the cache engine,
// also in the race flavour); the per-run digests (schedule fingerprint,
// decision-tape hash, event-log hash, violations) must be identical.
func selftest() int {
	n := 120
	if s := os.Getenv("VERIF_SELFTEST_RUNS"); s != "" {
		n, _ = strconv.Atoi(s)
	}
	type eng struct {
		engine   string
		race     bool
		profiles []string
	}
	engines := []eng{
		{"cachesim", false, []string{"mixed", "collide", "overwrite", "capacity", "delete", "single", "singlettl", "ttl", "rewrite", "close", "metrics", "agree"}},
	}
	if _, err := os.Stat(filepath.Join(verifRoot, "sim", "zsim", "worker_test.go")); err == nil {
		engines = append(engines, eng{"zsim", false, []string{"tree", "buffer", "alloc", "treereopen"}})
	}
	if os.Getenv("VERIF_SELFTEST_RACE") != "0" {
		engines = append(engines, eng{"cachesim", true, []string{"race"}})
	}
	bad := 0
	for _, e := range engines {
		bin := build(e.engine, e.race)
		var ref map[uint64]string
		for _, procs := range []int{1, 4, 16} {
			dir := filepath.Join(verifRoot, ".work", "selftest")
			os.MkdirAll(dir, 0o755)
			out := filepath.Join(dir, fmt.Sprintf("%s-%v-%d.jsonl", e.engine, e.race, procs))
			os.Remove(out)
			j := map[string]any{"mode": "batch", "prop": "C08", "profiles": e.profiles, "seed": 4242, "start": 0, "stride": 1, "max_runs": n, "out": out, "digest": true}
			b, _ := json.Marshal(j)
			jp := out + ".job"
			os.WriteFile(jp, b, 0o644)
			cmd := exec.Command(bin, "-test.run", "^TestWorker$", "-test.timeout", "0")
			cmd.Env = append(env(), "VERIF_JOB="+jp, fmt.Sprintf("GOMAXPROCS=%d", procs))
			if e.race {
				cmd.Env = append(cmd.Env, "GORACE=halt_on_error=1")
			}
			var buf bytes.Buffer
			cmd.Stdout, cmd.Stderr = &buf, &buf
			if err := cmd.Run(); err != nil {
				fmt.Printf("selftest: %s race=%v GOMAXPROCS=%d: worker failed: %v\n%s\n", e.engine, e.race, procs, err, firstLines(buf.String(), 400))
				bad++
				continue
			}
			got := map[uint64]string{}
			f, _ := os.Open(out)
			sc := bufio.NewScanner(f)
			sc.Buffer(make([]byte, 1<<20), 1<<26)
			for sc.Scan() {
				var l struct {
					T string `json:"t"`
					I uint64 `json:"i"`
					D string `json:"d"`
				}
				if json.Unmarshal(sc.Bytes(), &l) == nil && l.T == "digest" {
					got[l.I] = l.D
				}
			}
			f.Close()
			if len(got) < n {
				fmt.Printf("selftest: %s race=%v GOMAXPROCS=%d: only %d of %d digests\n", e.engine, e.race, procs, len(got), n)
				bad++
			}
			if ref == nil {
				ref = got
				continue
			}
			diff := 0
			for i, d := range got {
				if ref[i] != d {
					if diff < 3 {
						fmt.Printf("selftest: %s race=%v run %d differs between GOMAXPROCS=1 and %d:\n  %s\n  %s\n", e.engine, e.race, i, procs, ref[i], d)
					}
					diff++
				}
			}
			if diff > 0 {
				bad += diff
			}
			os.Remove(out)
			os.Remove(jp)
		}
		fmt.Printf("selftest: %s race=%v: %d runs x 3 processes compared\n", e.engine, e.race, n)
	}
	if bad > 0 {
		fmt.Printf("selftest: FAILED (%d differences)\n", bad)
		return 2
	}
	fmt.Println("selftest: determinism OK")
	return 0
}
