//go:build amd64

package core

// gptr returns the address of the calling goroutine's descriptor. It is
// stable for the lifetime of the goroutine; descriptors of finished goroutines
// are reused, which is why markDone forgets a task's identity.
func gptr() uint64

//go:norace
func goid() uint64 { return gptr() }
