#include "textflag.h"

// func gptr() uint64
// The address of the running goroutine's descriptor: a cheap identity for
// "which task is calling this hook" (the portable way, parsing runtime.Stack,
// cost two thirds of a worker's CPU time).
TEXT ·gptr(SB),NOSPLIT,$0-8
	MOVQ (TLS), AX
	MOVQ AX, ret+0(FP)
	RET
