// Package core is the deterministic scheduler: real goroutines running real
// code, released one at a time at yield sites, inside a testing/synctest
// bubble. See DESIGN.md S-CORE.
package core

import (
	"fmt"
	"runtime"
	"sort"
	"sync/atomic"
	"testing/synctest"
	"time"
)

const MaxTasks = 128

// Task states.
const (
	StNew     int32 = iota
	StParked        // at a yield site
	StIdle          // background loop head, waiting for a ready case
	StRunning       // released; still Running after Wait() == blocked in the runtime
	StDone
)

// Task kinds.
const (
	KindClient  = 0
	KindApplier = 1
	KindPolicy  = 2
	KindAlloc   = 3
)

const resumeKill = -99

// Readier mirrors ristretto.VerifReadier.
type Readier interface{ VerifReady() uint32 }

type Task struct {
	Name    string
	Ord     int // stable identity used in tapes: clients 0.., policy 900+, applier 1000+n
	Kind    int
	goid    uint64
	resume  chan int
	state   int32
	Site    int
	Key     uint64
	readier Readier
	mask    uint32 // readiness mask computed this step (idle tasks)
	fn      func()
	prio    int // PCT priority
	// Held counts the wrapped mutexes the task holds (mutex seam).
	Held int
	// skipUnlockYield: the last shard-level yield site was filtered out, so the
	// unlock that follows it is not a preemption point either
	SkipUnlockYield bool
	// Notify: parked at Sim.NotifySite and not yet seen by the engine
	Notify bool
	// statistics
	Steps int
}

func (t *Task) State() int32 { return atomic.LoadInt32(&t.state) }

type Sim struct {
	tasks  [MaxTasks]*Task
	ntasks int32
	D      *Decider
	Step   int
	seq    uint64
	nAppl  int32
	nPol   int32
	// YieldFilter decides whether a yield site parks (nil: always).
	YieldFilter func(site int, key uint64) bool
	// OnSwitch is called by the scheduler when it releases a task (for
	// fingerprints and yield-pair statistics).
	OnSwitch func(prev, next *Task)
	last     *Task
	Panic    any // first recovered client panic
	PanicTxt string
	killed   bool
	Start    time.Time
	// inTask is 1 while a released task may be running (between the hand-off in
	// Release and the return of synctest.Wait). Hooks reached from the scheduler
	// goroutine itself (white-box reads that take the wrapped locks, enumerate
	// shards ...) see 0 and return at once, without looking up a task identity.
	inTask int32
	// NotifySite: parks at this site are counted in Notifies and flagged on the
	// task, for the engine to log from the scheduler goroutine (-1: none)
	NotifySite  int
	NotifySite2 int
	// automatic sites (see autoPark)
	AutoPM     int
	AutoSeed   uint64
	AutoVisits int
	AutoParks  int
	autoVisits [maxAutoSites]uint16
	Notifies   int32
	// schedRaceOff: the scheduler goroutine has synchronisation events disabled
	schedRaceOff bool
}

// SchedRaceOff makes the race detector ignore synchronisation events of the
// calling (scheduler) goroutine from now on: its hand-offs to tasks and
// synctest.Wait must not order the tasks' memory accesses. No-op without -race.
func (s *Sim) SchedRaceOff() {
	if !s.schedRaceOff {
		s.schedRaceOff = true
		raceDisable()
	}
}

// SchedRaceOn undoes SchedRaceOff.
func (s *Sim) SchedRaceOn() {
	if s.schedRaceOff {
		s.schedRaceOff = false
		raceEnable()
	}
}

// S is the simulation the hooks talk to. One at a time per process.
var S *Sim

func New(d *Decider) *Sim {
	s := &Sim{D: d, Start: time.Now(), NotifySite: -1, NotifySite2: -1}
	return s
}

//go:norace
func (s *Sim) self() *Task {
	g := goid()
	n := int(atomic.LoadInt32(&s.ntasks))
	for i := 0; i < n; i++ {
		if t := s.tasks[i]; t != nil && t.goid == g {
			return t
		}
	}
	return nil
}

// Self returns the calling task (nil on the scheduler goroutine).
//
//go:norace
func (s *Sim) Self() *Task {
	if atomic.LoadInt32(&s.inTask) == 0 {
		return nil
	}
	return s.self()
}

//go:norace
func (s *Sim) register(t *Task) {
	i := atomic.AddInt32(&s.ntasks, 1) - 1
	if int(i) >= MaxTasks {
		panic("core: too many tasks")
	}
	s.tasks[i] = t
}

// NextSeq hands out the global event sequence number.
//
//go:norace
func (s *Sim) NextSeq() uint64 { return atomic.AddUint64(&s.seq, 1) }

// Spawn creates a client task. It parks before running fn; call from the
// scheduler goroutine (or from a running task).
func (s *Sim) Spawn(name string, ord int, kind int, fn func()) *Task {
	t := &Task{Name: name, Ord: ord, Kind: kind, resume: make(chan int), fn: fn}
	t.state = StNew
	ready := make(chan struct{})
	// the go statement runs with the race detector listening, so that the
	// fork edge parent -> child exists (the scheduler goroutine otherwise
	// ignores synchronisation events)
	if s.schedRaceOff {
		raceEnable()
	}
	go func() {
		taskInit(s, t)
		close(ready)
		defer taskFinish(s, t)
		park(t)
		t.fn()
	}()
	if s.schedRaceOff {
		raceDisable()
	}
	<-ready
	return t
}

//go:norace
func taskInit(s *Sim, t *Task) {
	t.goid = goid()
	atomic.StoreInt32(&t.state, StParked)
	s.register(t)
}

func taskFinish(s *Sim, t *Task) {
	if r := recover(); r != nil {
		buf := make([]byte, 8192)
		n := runtime.Stack(buf, false)
		setPanic(s, r, fmt.Sprintf("%v\n%s", r, buf[:n]))
	}
	markDone(t)
}

//go:norace
func setPanic(s *Sim, r any, txt string) {
	if s.Panic == nil {
		s.Panic = r
		s.PanicTxt = txt
	}
}

// Panicked reports whether a client task panicked.
//
//go:norace
func (s *Sim) Panicked() bool { return s.Panic != nil }

// PanicText returns the recovered panic and its stack.
//
//go:norace
func (s *Sim) PanicText() string { return s.PanicTxt }

// markDone ends a task. Its goroutine identity is forgotten: the runtime
// reuses the descriptor of a finished goroutine for a new one.
//
//go:norace
func markDone(t *Task) {
	t.goid = 0
	atomic.StoreInt32(&t.state, StDone)
}

//go:norace
func park(t *Task) int {
	raceDisable()
	v := <-t.resume
	raceEnable()
	if v == resumeKill {
		markDone(t)
		runtime.Goexit()
	}
	return v
}

// ---- hook entry points (called from /repo through the hook table) ----

// Yield parks the calling task at a site.
//
//go:norace
func Yield(site int, key uint64) {
	s := S
	if s == nil || atomic.LoadInt32(&s.inTask) == 0 {
		return
	}
	t := s.self()
	if t == nil {
		return
	}
	if site == SiteAuto {
		// mechanically inserted site (cmd/autoyield): never while a lock is held,
		// and only at the sites and visits this run has enabled
		if t.Held > 0 || atomic.LoadInt32(&NoUnlockYield) != 0 || !s.autoPark(key) {
			return
		}
	}
	if s.YieldFilter != nil && !s.YieldFilter(site, key) {
		t.SkipUnlockYield = true
		return
	}
	t.Site, t.Key = site, key
	t.SkipUnlockYield = false
	if site == s.NotifySite || site == s.NotifySite2 {
		// the engine wants to log this park; the task itself must not (it may
		// have been woken by, and be running concurrently with, another task)
		t.Notify = true
		atomic.AddInt32(&s.Notifies, 1)
	}
	atomic.StoreInt32(&t.state, StParked)
	park(t)
}

// Site numbers of the mutex seam.
const SiteAfterUnlock = 250

// SiteAuto is the site number of the preemption points inserted mechanically
// by cmd/autoyield; the key argument identifies the individual site.
const SiteAuto = 400

const maxAutoSites = 4096

// autoPark decides whether the calling task parks at automatic site n. The
// decision is a pure function of the run's AutoSeed, the site and how often
// the site has been visited in this run: a per-run random subset of the sites
// is enabled (AutoPM per mille), and an enabled site parks on its first
// AutoVisits visits only (a loop over 256 atomic cells must not drown the
// schedule).
//
//go:norace
func (s *Sim) autoPark(n uint64) bool {
	if s.AutoPM <= 0 || n >= maxAutoSites {
		return false
	}
	x := (n + 1) * 0x9e3779b97f4a7c15
	x ^= s.AutoSeed
	x ^= x >> 31
	x *= 0xbf58476d1ce4e5b9
	x ^= x >> 29
	if int(x%1000) >= s.AutoPM {
		return false
	}
	if int(s.autoVisits[n]) >= s.AutoVisits {
		return false
	}
	s.autoVisits[n]++
	s.AutoParks++
	return true
}

// NoUnlockYield suppresses the preemption point after unlocks and the
// mechanically inserted ones (set by the
// harness around its own white-box reads in task context).
var NoUnlockYield int32

// MutexLocked / MutexUnlocked are the mutex-seam hooks: a task that has just
// released its last lock yields.
//
//go:norace
func MutexLocked() {
	s := S
	if s == nil || atomic.LoadInt32(&s.inTask) == 0 {
		return
	}
	if t := s.self(); t != nil {
		t.Held++
	}
}

//go:norace
func MutexUnlocked() {
	s := S
	if s == nil || atomic.LoadInt32(&s.inTask) == 0 {
		return
	}
	t := s.self()
	if t == nil {
		return
	}
	t.Held--
	if t.Held != 0 || t.SkipUnlockYield || atomic.LoadInt32(&NoUnlockYield) != 0 {
		return
	}
	t.Site, t.Key = SiteAfterUnlock, 0
	atomic.StoreInt32(&t.state, StParked)
	park(t)
}

// TaskStart registers a background goroutine of /repo.
//
//go:norace
func TaskStart(kind int, obj Readier) {
	s := S
	if s == nil {
		return
	}
	t := &Task{Kind: kind, resume: make(chan int), readier: obj}
	switch kind {
	case KindApplier:
		n := int(atomic.AddInt32(&s.nAppl, 1))
		t.Name = fmt.Sprintf("applier#%d", n)
		t.Ord = 1000 + n
	case KindPolicy:
		n := int(atomic.AddInt32(&s.nPol, 1))
		t.Name = fmt.Sprintf("policy#%d", n)
		t.Ord = 900 + n
	default:
		t.Name = fmt.Sprintf("bg%d", kind)
		t.Ord = 800 + kind
	}
	t.goid = goid()
	atomic.StoreInt32(&t.state, StRunning)
	s.register(t)
}

//go:norace
func TaskEnd(kind int) {
	s := S
	if s == nil {
		return
	}
	if t := s.self(); t != nil {
		markDone(t)
	}
}

// Idle parks a background goroutine at its loop head and returns the select
// case chosen by the scheduler.
//
//go:norace
func Idle(kind int) int {
	s := S
	if s == nil {
		return 0
	}
	t := s.self()
	if t == nil {
		return 0
	}
	t.Site = 0
	atomic.StoreInt32(&t.state, StIdle)
	return park(t)
}

// ---- scheduler side (root goroutine of the bubble) ----

// Settle waits until every other goroutine of the bubble is durably blocked.
func (s *Sim) Settle() { synctest.Wait() }

// Tasks returns all registered tasks sorted by Ord.
func (s *Sim) Tasks() []*Task {
	n := int(atomic.LoadInt32(&s.ntasks))
	out := make([]*Task, 0, n)
	for i := 0; i < n; i++ {
		out = append(out, s.tasks[i])
	}
	sort.Slice(out, func(i, j int) bool { return out[i].Ord < out[j].Ord })
	return out
}

// Runnable returns the tasks that can be released now, sorted by Ord. Idle
// background tasks are runnable when at least one of their select cases is
// ready. Call only after Settle.
func (s *Sim) Runnable() []*Task {
	var out []*Task
	for _, t := range s.Tasks() {
		switch t.State() {
		case StParked:
			out = append(out, t)
		case StIdle:
			t.mask = t.readier.VerifReady()
			if t.mask != 0 {
				out = append(out, t)
			}
		}
	}
	return out
}

// Blocked returns tasks that were released and are now blocked inside the
// runtime (channel operations of the code under test).
func (s *Sim) Blocked() []*Task {
	var out []*Task
	for _, t := range s.Tasks() {
		if t.State() == StRunning {
			out = append(out, t)
		}
	}
	return out
}

func (s *Sim) Live() int {
	n := 0
	for _, t := range s.Tasks() {
		if t.State() != StDone {
			n++
		}
	}
	return n
}

// Mask returns the readiness mask of an idle task computed by Runnable.
func (t *Task) Mask() uint32 { return t.mask }

// Release lets one task run until its next yield site, block or end, and
// waits for the bubble to settle. gate is the select case for idle tasks.
func (s *Sim) Release(t *Task, gate int) {
	if s.OnSwitch != nil {
		s.OnSwitch(s.last, t)
	}
	s.last = t
	t.Steps++
	s.Step++
	atomic.StoreInt32(&t.state, StRunning)
	atomic.StoreInt32(&s.inTask, 1)
	t.resume <- gate
	synctest.Wait()
	atomic.StoreInt32(&s.inTask, 0)
}

// Advance moves the simulated clock.
func (s *Sim) Advance(d time.Duration) {
	if d <= 0 {
		return
	}
	time.Sleep(d)
	synctest.Wait()
}

// KillAll ends every parked task (used when a run is aborted). Tasks blocked
// in the runtime cannot be ended; the caller must treat the process as
// tainted when any remain.
func (s *Sim) KillAll() (leftBlocked int) {
	s.killed = true
	atomic.StoreInt32(&s.inTask, 1)
	defer atomic.StoreInt32(&s.inTask, 0)
	for round := 0; round < 8; round++ {
		synctest.Wait()
		any := false
		for _, t := range s.Tasks() {
			st := t.State()
			if st == StParked || st == StIdle {
				atomic.StoreInt32(&t.state, StRunning)
				t.resume <- resumeKill
				any = true
			}
		}
		if !any {
			break
		}
	}
	synctest.Wait()
	for _, t := range s.Tasks() {
		if t.State() != StDone {
			leftBlocked++
		}
	}
	return
}
