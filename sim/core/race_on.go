//go:build race

package core

import "runtime"

const RaceEnabled = true

//go:norace
func raceDisable() { runtime.RaceDisable() }

//go:norace
func raceEnable() { runtime.RaceEnable() }

// SchedulerRaceOff makes the race detector ignore synchronisation events on
// the calling (scheduler) goroutine for the rest of its life.
func SchedulerRaceOff() { runtime.RaceDisable() }
func SchedulerRaceOn()  { runtime.RaceEnable() }
