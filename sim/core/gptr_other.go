//go:build !amd64

package core

import "runtime"

//go:norace
func goid() uint64 {
	var buf [40]byte
	n := runtime.Stack(buf[:], false)
	// "goroutine 123 ["
	var id uint64
	for i := 10; i < n; i++ {
		c := buf[i]
		if c < '0' || c > '9' {
			break
		}
		id = id*10 + uint64(c-'0')
	}
	return id
}
