package core

import (
	"fmt"
	"math/bits"
	"math/rand/v2"
)

// Decision labels.
const (
	LSched  = 's' // which task runs next (pick indexes the runnable list; Ord recorded)
	LGate   = 'g' // which ready select case
	LClock  = 'c' // clock decisions
	LRange  = 'r' // map enumeration order
	LStripe = 'p' // Get-stripe choice
	LFault  = 'f' // fault decisions
	LOther  = 'o'
)

type TapeEntry struct {
	L   byte  `json:"l"`
	N   int   `json:"n"`
	V   int   `json:"v"`
	Ord int   `json:"o,omitempty"` // for LSched: Ord of the chosen task
	X   int64 `json:"x,omitempty"` // free-form payload (e.g. clock nanoseconds)
}

// Modes of a Decider.
const (
	ModeRandom  = 0 // draw from the PRNG, record
	ModeStrict  = 1 // read the tape, any mismatch is a divergence
	ModeLenient = 2 // read the tape where it fits, otherwise fall back to the PRNG
)

// srng is a splitmix64 stream. It is used instead of math/rand because
// decisions are also drawn in task context (map-order and stripe seams): all
// of its methods are //go:norace so that the race flavour does not see the
// simulator's own state.
type srng struct{ s uint64 }

//go:norace
func (r *srng) next() uint64 {
	r.s += 0x9e3779b97f4a7c15
	z := r.s
	z = (z ^ (z >> 30)) * 0xbf58476d1ce4e5b9
	z = (z ^ (z >> 27)) * 0x94d049bb133111eb
	return z ^ (z >> 31)
}

//go:norace
func (r *srng) intn(n int) int {
	hi, _ := bits.Mul64(r.next(), uint64(n))
	return int(hi)
}

type Decider struct {
	rng      srng
	Mode     int
	Tape     []TapeEntry // recorded (ModeRandom/ModeLenient) decisions
	In       []TapeEntry // tape being replayed
	pos      int
	Diverged string
	NoRecord bool
}

func SplitMix(x uint64) uint64 {
	x += 0x9e3779b97f4a7c15
	z := x
	z = (z ^ (z >> 30)) * 0xbf58476d1ce4e5b9
	z = (z ^ (z >> 27)) * 0x94d049bb133111eb
	return z ^ (z >> 31)
}

// RunSeed derives the seed of run i of a batch.
func RunSeed(verifSeed uint64, i uint64) uint64 {
	return SplitMix(SplitMix(verifSeed) ^ SplitMix(i*0x632be59bd9b4e019+1))
}

func NewRand(seed, stream uint64) *rand.Rand {
	return rand.New(rand.NewPCG(SplitMix(seed), SplitMix(seed^(stream*0x9e3779b97f4a7c15+0x1234567))))
}

func NewDecider(seed uint64) *Decider {
	d := &Decider{rng: srng{s: SplitMix(seed ^ 0x5bd1e9955bd1e995)}}
	d.Tape = make([]TapeEntry, 0, 4096)
	return d
}

func NewReplayDecider(seed uint64, in []TapeEntry, strict bool) *Decider {
	d := NewDecider(seed)
	d.In = in
	if strict {
		d.Mode = ModeStrict
	} else {
		d.Mode = ModeLenient
	}
	return d
}

//go:norace
func (d *Decider) record(e TapeEntry) {
	if !d.NoRecord {
		d.Tape = append(d.Tape, e)
	}
}

// Choose returns a value in [0,n). n must be >= 1.
//
//go:norace
func (d *Decider) Choose(n int, label byte) int {
	return d.ChooseOrd(n, label, nil)
}

// Intn is Choose with the generic label.
//
//go:norace
func (d *Decider) Intn(n int) int { return d.Choose(n, LOther) }

// Float returns a decision in [0,1) with 1/1024 resolution.
//
//go:norace
func (d *Decider) Prob(p float64, label byte) bool {
	if p <= 0 {
		return false
	}
	if p >= 1 {
		return true
	}
	return float64(d.Choose(1024, label)) < p*1024
}

// ChooseOrd is Choose for scheduling decisions: ords[i] is the stable
// identity of alternative i, so that a lenient replay can follow the same
// task even when the runnable set differs.
//
//go:norace
func (d *Decider) ChooseOrd(n int, label byte, ords []int) int {
	if n <= 0 {
		panic("core: Choose(0)")
	}
	switch d.Mode {
	case ModeStrict:
		if d.pos >= len(d.In) {
			d.diverge(fmt.Sprintf("tape exhausted at decision %d (label %c n=%d)", d.pos, label, n))
			return 0
		}
		e := d.In[d.pos]
		d.pos++
		if e.L != label || e.N != n || e.V >= n {
			d.diverge(fmt.Sprintf("decision %d: tape has %c n=%d v=%d, run asks %c n=%d", d.pos-1, e.L, e.N, e.V, label, n))
			return 0
		}
		d.record(e)
		return e.V
	case ModeLenient:
		// find the next tape entry with this label
		p := d.pos
		for p < len(d.In) && d.In[p].L != label {
			p++
		}
		if p < len(d.In) && p-d.pos < 64 {
			e := d.In[p]
			d.pos = p + 1
			v := -1
			if label == LSched && ords != nil {
				for i, o := range ords {
					if o == e.Ord {
						v = i
						break
					}
				}
				if v < 0 {
					v = 0
				}
			} else if e.N == n {
				v = e.V
			} else {
				v = e.V % n
			}
			ne := TapeEntry{L: label, N: n, V: v}
			if ords != nil {
				ne.Ord = ords[v]
			}
			d.record(ne)
			return v
		}
	}
	v := 0
	if n > 1 {
		v = d.rng.intn(n)
	}
	e := TapeEntry{L: label, N: n, V: v}
	if ords != nil {
		e.Ord = ords[v]
	}
	d.record(e)
	return v
}

//go:norace
func (d *Decider) diverge(msg string) {
	if d.Diverged == "" {
		d.Diverged = msg
	}
}

// ---- scheduling strategies ----

const (
	StratUniform = iota
	StratSticky
	StratPCT
	StratStarve
	NumStrats
)

var StratNames = []string{"uniform", "sticky", "pct", "starve"}

type SchedCfg struct {
	Strategy  int     `json:"strategy"`
	StickyP   int     `json:"sticky_p,omitempty"`   // per mille
	PCTDepth  int     `json:"pct_depth,omitempty"`  // number of priority change points
	PCTSteps  int     `json:"pct_steps,omitempty"`  // horizon for change points
	StarveOrd int     `json:"starve_ord,omitempty"` // Ord of the task withheld (StratStarve)
	StarveLen int     `json:"starve_len,omitempty"` // steps it is withheld, per episode
	StarveGap int     `json:"starve_gap,omitempty"`
	_         float64 `json:"-"`
}

type Picker struct {
	Cfg     SchedCfg
	d       *Decider
	last    *Task
	changes map[int]bool // PCT change points (step numbers)
	lowPrio int
	step    int
	starved int
	sinceEp int
}

func NewPicker(cfg SchedCfg, d *Decider) *Picker {
	p := &Picker{Cfg: cfg, d: d, lowPrio: -1}
	if cfg.Strategy == StratPCT {
		p.changes = map[int]bool{}
		h := cfg.PCTSteps
		if h < 10 {
			h = 10
		}
		for i := 0; i < cfg.PCTDepth; i++ {
			p.changes[1+d.Choose(h, LSched)] = true
		}
	}
	return p
}

func ords(ts []*Task) []int {
	o := make([]int, len(ts))
	for i, t := range ts {
		o[i] = t.Ord
	}
	return o
}

// Pick chooses the next task among runnable (sorted by Ord, non-empty).
// fair=true ignores the strategy and picks uniformly (epilogue phases).
func (p *Picker) Pick(runnable []*Task, fair bool) *Task {
	p.step++
	if len(runnable) == 1 {
		p.last = runnable[0]
		return runnable[0]
	}
	if fair {
		t := runnable[p.d.ChooseOrd(len(runnable), LSched, ords(runnable))]
		p.last = t
		return t
	}
	switch p.Cfg.Strategy {
	case StratSticky:
		if p.last != nil {
			for _, t := range runnable {
				if t == p.last {
					if p.d.Choose(1000, LSched) < p.Cfg.StickyP {
						return t
					}
					break
				}
			}
		}
	case StratPCT:
		// assign priorities lazily, in Ord order of first appearance
		for _, t := range runnable {
			if t.prio == 0 {
				t.prio = 1000 + p.d.Choose(1000, LSched)
			}
		}
		best := runnable[0]
		for _, t := range runnable[1:] {
			if t.prio > best.prio {
				best = t
			}
		}
		if p.changes[p.step] {
			best.prio = p.lowPrio
			p.lowPrio--
			if p.lowPrio < -900 {
				p.lowPrio = -900
			}
			best = runnable[0]
			for _, t := range runnable[1:] {
				if t.prio > best.prio {
					best = t
				}
			}
		}
		p.last = best
		return best
	case StratStarve:
		// withhold one task for StarveLen steps, then let it be for StarveGap
		if p.starved < p.Cfg.StarveLen {
			var rest []*Task
			for _, t := range runnable {
				if !matchStarve(t, p.Cfg.StarveOrd) {
					rest = append(rest, t)
				}
			}
			if len(rest) > 0 && len(rest) < len(runnable) {
				p.starved++
				runnable = rest
				if len(runnable) == 1 {
					p.last = runnable[0]
					return runnable[0]
				}
			}
		} else {
			p.sinceEp++
			if p.sinceEp >= p.Cfg.StarveGap {
				p.starved, p.sinceEp = 0, 0
			}
		}
	}
	t := runnable[p.d.ChooseOrd(len(runnable), LSched, ords(runnable))]
	p.last = t
	return t
}

// matchStarve: StarveOrd 1000 means "any applier", 900 "any policy", else exact.
func matchStarve(t *Task, ord int) bool {
	switch ord {
	case 1000:
		return t.Kind == KindApplier
	case 900:
		return t.Kind == KindPolicy
	}
	return t.Ord == ord
}
