//go:build !race

package core

const RaceEnabled = false

func raceDisable()      {}
func raceEnable()       {}
func SchedulerRaceOff() {}
func SchedulerRaceOn()  {}
