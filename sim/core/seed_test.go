package core

import (
	"fmt"
	"os"
	"strconv"
	"testing"
)

func TestPrintSeed(t *testing.T) {
	if os.Getenv("DBG_VSEED") == "" {
		t.Skip()
	}
	v, _ := strconv.ParseUint(os.Getenv("DBG_VSEED"), 10, 64)
	i, _ := strconv.ParseUint(os.Getenv("DBG_IDX"), 10, 64)
	fmt.Println("SEED", RunSeed(v, i))
}
