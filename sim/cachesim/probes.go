package cachesim

import (
	"sync/atomic"

	"github.com/dgraph-io/ristretto/v2"
)

const (
	ristrettoSiteIterShard  = ristretto.VerifSiteStoreIterShard
	ristrettoSiteClearShard = ristretto.VerifSiteStoreClearShard
	ristrettoSiteWaitRecv   = ristretto.VerifSiteWaitRecv
)

// Probes: "was the rare state reached?" counters (DESIGN.md S-CACHE).
const (
	PrNewSetDropped = iota
	PrUpdateDropped
	PrRejected
	PrEvicted
	PrNilEvict // victim already gone / phantom victim
	PrNilExit
	PrClearDrainedNew
	PrClearDrainedUpdate
	PrClearDrainedTomb
	PrClearReleasedWaiter
	PrDelBlocked
	PrSweep
	PrSweepRemoved
	PrSweepSkipped
	PrWriteDuringSweepGrabToCheck
	PrWriteDuringSweepCheckToDel
	PrLateApply       // TTL item applied after its expiry
	PrGetAtExpiry     // Get at exactly the expiration instant
	PrClockAtExpiry   // clock moved next to an expiration
	PrGetBatchDropped // policy channel full
	PrStripeLost
	PrCollisionUsed
	PrShouldUpdateRefused
	PrOverwriteWhileBuffered
	PrDelWhileBuffered // C05 trigger: Del ran while an earlier insert of the key was buffered
	PrEvictionDecision // C09 trigger
	PrRejectDecision
	PrMultiVictim
	PrPhantomVictim
	PrFitsDecision
	PrQuiescent
	PrCleanClear
	PrDirtyClear
	PrCloseWithWaiter
	PrCloseWithBuffered
	PrExpiredServedCheck // C07: Get after expiry observed (and missed)
	PrTTLHit             // C07: Get before expiry hit
	PrModelChecks        // C06 model comparisons
	PrSweepEvictChecked  // C14 safety checks performed
	PrC05Checks
	PrExitBeforeGet // C02: Gets checked against an earlier exit on the same key
	PrMetricsChecked
	PrEmptyCheckSkipped
	PrEmptyChecked
	PrFreshChecked
	PrClosedProbed
	PrUnguaranteedCollision
	PrDeadlineExempt
	PrGetHit
	PrC05ClearExempt
	PrSketchFreshChecked
	PrWaiterReleaseChecked // C15: a Wait blocked at a Clear's invocation was still in progress at its return
	PrCloseWaiterAtSend    // C15: Close issued while a Wait was blocked on the full write buffer
	PrModelDefinite
	PrModelPending
	PrModelUnknown
	PrClockPastExpiry // clock moved into the round period after a pending expiration's
	PrSteadyChecked // C14: values checked after the steady-clock phase
	PrNoRaiseChecked // C03: RemainingCost() >= 0 checked in a single-writer run without a raising overwrite
	PrFreshModelChecked // C15: the reference model decided the reads made after the epilogue's Clear
	NumProbes
)

var ProbeNames = []string{
	"new_set_dropped", "update_dropped", "rejected", "evicted", "nil_evict", "nil_exit",
	"clear_drained_new", "clear_drained_update", "clear_drained_tombstone", "clear_released_waiter",
	"del_blocked", "sweep", "sweep_removed", "sweep_skipped", "write_between_grab_and_check",
	"write_between_check_and_delete", "late_apply", "get_at_expiry", "clock_at_expiry",
	"get_batch_dropped", "stripe_lost", "collision_used", "should_update_refused",
	"overwrite_while_buffered", "del_while_buffered", "eviction_decision", "reject_decision",
	"multi_victim", "phantom_victim", "fits_decision", "quiescent_points", "clean_clear", "dirty_clear",
	"close_with_waiter", "close_with_buffered", "expired_get_checked", "ttl_hit", "model_checks",
	"sweep_evict_checked", "c05_checks", "exit_before_get_checked",
	"metrics_checked", "empty_check_skipped", "empty_checked", "fresh_checked", "closed_probed",
	"unguaranteed_collision", "deadline_exempt", "get_hit", "c05_clear_exempt", "sketch_fresh_checked",
	"waiter_release_checked", "close_waiter_at_send",
	"model_definite", "model_pending", "model_unknown", "clock_past_expiry", "steady_checked", "no_raise_checked", "fresh_model_checked",
}

var curProbes [NumProbes]int

//go:norace
func probe(i int) { curProbes[i]++ }

// Yield-site pair coverage across all runs of this worker process.
var sitePairs [256][256]bool

//go:norace
func notePair(a, b int) {
	if a >= 0 && a < 256 && b >= 0 && b < 256 {
		sitePairs[a][b] = true
	}
}

// workerProgress is bumped on every scheduling step; the wall-clock watchdog
// (outside the bubble) reads it.
var workerProgress atomic.Int64
