//go:build !autoyield

package cachesim

// built from the plain tree: hand-placed yield sites only
const autoSites = 0
