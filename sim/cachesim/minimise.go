package cachesim

import (
	"encoding/json"
	"testing"
	"time"

	"verifsim/core"
)

func clonePlan(p *Plan) *Plan {
	b, _ := json.Marshal(p)
	var q Plan
	json.Unmarshal(b, &q)
	return &q
}

func hasViolation(res *RunResult, prop, rule string) *Violation {
	if res == nil {
		return nil
	}
	for i := range res.Violations {
		v := &res.Violations[i]
		if v.Prop == prop && (rule == "" || v.Rule == rule) {
			return v
		}
	}
	return nil
}

func planSize(p *Plan) int {
	n := 0
	for _, c := range p.Clients {
		n += len(c)
	}
	return n*4 + len(p.Closer) + p.Sim.PClock/50 + p.Sim.PQuiesce/20 + p.Sim.PStripeLose/100
}

// Minimise shrinks (plan, tape) while the same rule of the same property
// keeps firing. Candidates are replayed leniently against the best tape so
// far; the result is re-recorded so that it replays strictly.
func Minimise(t *testing.T, eng *Engine, plan *Plan, tape []core.TapeEntry, prop, rule string, budget time.Duration) (*Plan, []core.TapeEntry, *RunResult, int) {
	deadline := time.Now().Add(budget)
	tried := 0
	tainted := 0
	try := func(cand *Plan, base []core.TapeEntry) (*RunResult, bool) {
		if time.Now().After(deadline) || tainted > 40 {
			return nil, false
		}
		tried++
		dec := core.NewReplayDecider(cand.Seed, base, false)
		res := runOne(t, cand, dec, eng)
		if res.LeftTasks > 0 {
			tainted++
		}
		return res, hasViolation(res, prop, rule) != nil
	}
	best, bestTape := plan, tape
	var bestRes *RunResult
	// 0. cut off everything the clients had not even started when the violation
	// was observed (cannot change what happened before it); OpYield and other
	// pseudo operations log nothing, so keep a margin of the next few operations
	{
		dec := core.NewReplayDecider(plan.Seed, tape, false)
		res := runOne(t, plan, dec, eng)
		if v := hasViolation(res, prop, rule); v != nil && v.Seq != 0 {
			pre := eng.PrefixAt(v.Seq)
			cand := clonePlan(plan)
			cut := false
			for ci := range cand.Clients {
				keep := pre[ci]
				// pseudo operations following the last logged one
				for keep < len(cand.Clients[ci]) && (cand.Clients[ci][keep].K == OpYield) {
					keep++
				}
				if keep < len(cand.Clients[ci]) {
					cand.Clients[ci] = cand.Clients[ci][:keep]
					cut = true
				}
			}
			if cut {
				if r2, ok := try(cand, res.Tape); ok {
					best, bestTape, bestRes = cand, r2.Tape, r2
				}
			}
		}
	}
	improved := true
	for improved && time.Now().Before(deadline) {
		improved = false
		// 1. drop whole client programs (kept as empty programs so task identities stay stable)
		for ci := range best.Clients {
			if len(best.Clients[ci]) == 0 {
				continue
			}
			cand := clonePlan(best)
			cand.Clients[ci] = []Op{}
			if res, ok := try(cand, bestTape); ok {
				best, bestTape, bestRes, improved = cand, res.Tape, res, true
			}
		}
		// 2. ddmin over each program
		for ci := range best.Clients {
			n := len(best.Clients[ci])
			for chunk := n / 2; chunk >= 1; chunk /= 2 {
				for start := 0; start+chunk <= len(best.Clients[ci]); {
					cand := clonePlan(best)
					prog := cand.Clients[ci]
					cand.Clients[ci] = append(append([]Op{}, prog[:start]...), prog[start+chunk:]...)
					if res, ok := try(cand, bestTape); ok {
						best, bestTape, bestRes, improved = cand, res.Tape, res, true
					} else {
						start += chunk
					}
				}
			}
		}
		// 3. drop the closer, faults and clock advances
		simpl := []func(*Plan) bool{
			func(p *Plan) bool {
				if len(p.Closer) == 0 {
					return false
				}
				p.Closer = nil
				return true
			},
			func(p *Plan) bool {
				if p.Sim.PClock == 0 {
					return false
				}
				p.Sim.PClock = 0
				return true
			},
			func(p *Plan) bool {
				if p.Sim.PQuiesce == 0 {
					return false
				}
				p.Sim.PQuiesce = 0
				return true
			},
			func(p *Plan) bool {
				if p.Sim.PStripeLose == 0 {
					return false
				}
				p.Sim.PStripeLose = 0
				return true
			},
			func(p *Plan) bool {
				if p.Cfg.ClockOffset == 0 {
					return false
				}
				p.Cfg.ClockOffset = 0
				return true
			},
			func(p *Plan) bool {
				if p.Cfg.MaxStripes == 1 {
					return false
				}
				p.Cfg.MaxStripes = 1
				return true
			},
			func(p *Plan) bool {
				if !p.Cfg.Metrics {
					return false
				}
				p.Cfg.Metrics = false
				return true
			},
		}
		for _, f := range simpl {
			cand := clonePlan(best)
			if !f(cand) {
				continue
			}
			if res, ok := try(cand, bestTape); ok {
				best, bestTape, bestRes, improved = cand, res.Tape, res, true
			}
		}
		// 4. simplify arguments: ttl -> 0, cost -> 1
		for ci := range best.Clients {
			for oi := range best.Clients[ci] {
				op := best.Clients[ci][oi]
				if op.K == OpSet && op.TTL != 0 {
					cand := clonePlan(best)
					cand.Clients[ci][oi].TTL = 0
					if res, ok := try(cand, bestTape); ok {
						best, bestTape, bestRes, improved = cand, res.Tape, res, true
					}
				}
			}
		}
	}
	// 5. schedule: fewer context switches - replace "switch" decisions by "stay" from the end backwards
	if bestRes != nil || true {
		for pass := 0; pass < 2 && time.Now().Before(deadline); pass++ {
			for i := len(bestTape) - 1; i >= 1 && time.Now().Before(deadline); i-- {
				if bestTape[i].L != core.LSched {
					continue
				}
				// previous scheduling decision
				j := i - 1
				for j >= 0 && bestTape[j].L != core.LSched {
					j--
				}
				if j < 0 || bestTape[j].Ord == bestTape[i].Ord {
					continue
				}
				candTape := append([]core.TapeEntry{}, bestTape...)
				candTape[i].Ord = bestTape[j].Ord
				if res, ok := try(best, candTape); ok && len(res.Tape) <= len(bestTape) {
					bestTape, bestRes = res.Tape, res
				}
				if tried > 1500 {
					break
				}
			}
		}
	}
	// final strict re-recording
	dec := core.NewReplayDecider(best.Seed, bestTape, false)
	res := runOne(t, best, dec, eng)
	if hasViolation(res, prop, rule) == nil {
		// fall back to the unminimised input
		dec = core.NewReplayDecider(plan.Seed, tape, false)
		res = runOne(t, plan, dec, eng)
		return plan, res.Tape, res, tried
	}
	return best, res.Tape, res, tried
}
