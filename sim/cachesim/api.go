package cachesim

import (
	"fmt"
	"time"

	"github.com/dgraph-io/ristretto/v2"
)

// Val is the value type stored in the cache under test. Every Set carries a
// fresh *Val, so every value observed anywhere is attributable to one call.
type Val struct {
	ID   int
	Key  int   // logical key index
	Cost int64 // explicit cost passed to Set
	FnC  int64 // cost reported by the Config.Cost callback
	TTL  int64
	Task int
	// the Set call that supplied it
	InvSeq, RetSeq uint64
	InvT, RetT     int64
	Accepted       int8 // 0 in flight, 1 Set returned true, -1 returned false
	// ledger
	NExit, NEvict, NReject       int
	ExitSeq, EvictSeq, RejectSeq uint64
	ExitT                        int64
	EvictInSweep                 bool
	EvictT                       int64
	ExitTask                     int
}

// Named key types: z.Key admits any type whose underlying type is one of the
// basic kinds; such keys take the reflect path of z.KeyToHash.
type (
	nInt    int
	nInt64  int64
	nUint64 uint64
	nString string
	nBytes  []byte
)

// cacheAPI hides the key type parameter.
type cacheAPI interface {
	Get(k int) (*Val, bool)
	Set(k int, v *Val, cost int64, ttl time.Duration) bool
	Del(k int)
	GetTTL(k int) (time.Duration, bool)
	IterValues(cb func(*Val) bool)
	Wait()
	Clear()
	Close()
	MaxCost() int64
	UpdateMaxCost(int64)
	RemainingCost() int64
	Metrics() *ristretto.Metrics
	Snapshot() *ristretto.VerifSnap[*Val]
	PolicyState() (used, maxCost, sum int64, n int)
	EstimateLocked(h uint64) int64
	Estimate(h uint64) int64
	PolicyCostsLocked() ([]ristretto.VerifKeyCost, int64, int64)
	Hash(k int) (uint64, uint64)
}

type typed[K ristretto.Key] struct {
	c  *ristretto.Cache[K, *Val]
	mk func(int) K
}

func (t *typed[K]) Get(k int) (*Val, bool) { return t.c.Get(t.mk(k)) }
func (t *typed[K]) Set(k int, v *Val, cost int64, ttl time.Duration) bool {
	if ttl == 0 {
		return t.c.Set(t.mk(k), v, cost)
	}
	return t.c.SetWithTTL(t.mk(k), v, cost, ttl)
}
func (t *typed[K]) Del(k int)                          { t.c.Del(t.mk(k)) }
func (t *typed[K]) GetTTL(k int) (time.Duration, bool) { return t.c.GetTTL(t.mk(k)) }
func (t *typed[K]) IterValues(cb func(*Val) bool)      { t.c.IterValues(cb) }
func (t *typed[K]) Wait()                              { t.c.Wait() }
func (t *typed[K]) Clear()                             { t.c.Clear() }
func (t *typed[K]) Close()                             { t.c.Close() }
func (t *typed[K]) MaxCost() int64                     { return t.c.MaxCost() }
func (t *typed[K]) UpdateMaxCost(m int64)              { t.c.UpdateMaxCost(m) }
func (t *typed[K]) RemainingCost() int64               { return t.c.RemainingCost() }
func (t *typed[K]) Metrics() *ristretto.Metrics        { return t.c.Metrics }
func (t *typed[K]) Snapshot() *ristretto.VerifSnap[*Val] {
	return t.c.VerifSnapshot()
}
func (t *typed[K]) PolicyState() (int64, int64, int64, int) { return t.c.VerifPolicyState() }
func (t *typed[K]) EstimateLocked(h uint64) int64           { return t.c.VerifEstimateLocked(h) }
func (t *typed[K]) Estimate(h uint64) int64                 { return t.c.VerifEstimate(h) }
func (t *typed[K]) PolicyCostsLocked() ([]ristretto.VerifKeyCost, int64, int64) {
	return t.c.VerifPolicyCostsLocked()
}
func (t *typed[K]) Hash(k int) (uint64, uint64) { return t.c.VerifHash(t.mk(k)) }

func newTyped[K ristretto.Key](cfg *CacheCfg, mk func(int) K, unmk func(K) int) (cacheAPI, error) {
	maxCost := cfg.MaxCost
	if cfg.InternItems > 0 && !cfg.IgnoreIntern {
		maxCost += cfg.InternItems * measuredIntern
	}
	rc := &ristretto.Config[K, *Val]{
		NumCounters:            cfg.NumCounters,
		MaxCost:                maxCost,
		BufferItems:            cfg.BufferItems,
		Metrics:                cfg.Metrics,
		IgnoreInternalCost:     cfg.IgnoreIntern,
		TtlTickerDurationInSec: cfg.TickerSec,
	}
	if cfg.Callbacks {
		rc.OnEvict = cbEvict
		rc.OnReject = cbReject
		rc.OnExit = cbExit
	}
	if cfg.CostFn {
		rc.Cost = cbCost
	}
	switch cfg.ShouldUpdate {
	case SUAlways:
		rc.ShouldUpdate = suAlways
	case SURefuseOdd:
		rc.ShouldUpdate = suRefuseOdd
	case SURefuseAll:
		rc.ShouldUpdate = suRefuseAll
	}
	if cfg.Hasher == HashCustom {
		keys := cfg.Keys
		rc.KeyToHash = func(k K) (uint64, uint64) {
			i := unmk(k)
			if i < 0 || i >= len(keys) {
				return 0xdead0000 + uint64(i), 1
			}
			return keys[i].Hash, keys[i].Conflict
		}
	}
	c, err := ristretto.NewCache(rc)
	if err != nil {
		return nil, err
	}
	return &typed[K]{c: c, mk: mk}, nil
}

func newCache(cfg *CacheCfg) (cacheAPI, error) {
	keys := cfg.Keys
	idxOfInt := func(v uint64) int {
		for i, k := range keys {
			if k.Int == v {
				return i
			}
		}
		return -1
	}
	// string kinds: the key text is "k<int>" unless the plan gives the bytes
	// itself (adversarial key families: trailing NULs, shared prefixes, ...)
	text := func(i int) string {
		if keys[i].Empty {
			return ""
		}
		if keys[i].StrB != nil {
			return string(keys[i].StrB)
		}
		return fmt.Sprintf("k%d", keys[i].Int)
	}
	byText := make(map[string]int, len(keys))
	for i := range keys {
		byText[text(i)] = i
	}
	parse := func(s string) int {
		if i, ok := byText[s]; ok {
			return i
		}
		return -1
	}
	switch cfg.KeyKind {
	case KeyInt:
		return newTyped[int](cfg, func(i int) int { return int(keys[i].Int) }, func(k int) int { return idxOfInt(uint64(k)) })
	case KeyUint64:
		return newTyped[uint64](cfg, func(i int) uint64 { return keys[i].Int }, func(k uint64) int { return idxOfInt(k) })
	case KeyInt64:
		return newTyped[int64](cfg, func(i int) int64 { return int64(keys[i].Int) }, func(k int64) int { return idxOfInt(uint64(k)) })
	case KeyInt32:
		return newTyped[int32](cfg, func(i int) int32 { return int32(keys[i].Int) }, func(k int32) int { return idxOfInt(uint64(k)) })
	case KeyUint32:
		return newTyped[uint32](cfg, func(i int) uint32 { return uint32(keys[i].Int) }, func(k uint32) int { return idxOfInt(uint64(k)) })
	case KeyByte:
		return newTyped[byte](cfg, func(i int) byte { return byte(keys[i].Int) }, func(k byte) int { return idxOfInt(uint64(k)) })
	case KeyUint:
		return newTyped[uint](cfg, func(i int) uint { return uint(keys[i].Int) }, func(k uint) int { return idxOfInt(uint64(k)) })
	case KeyNamedInt:
		return newTyped[nInt](cfg, func(i int) nInt { return nInt(keys[i].Int) }, func(k nInt) int { return idxOfInt(uint64(k)) })
	case KeyNamedInt64:
		return newTyped[nInt64](cfg, func(i int) nInt64 { return nInt64(keys[i].Int) }, func(k nInt64) int { return idxOfInt(uint64(k)) })
	case KeyNamedUint64:
		return newTyped[nUint64](cfg, func(i int) nUint64 { return nUint64(keys[i].Int) }, func(k nUint64) int { return idxOfInt(uint64(k)) })
	case KeyNamedString:
		return newTyped[nString](cfg, func(i int) nString { return nString(text(i)) }, func(k nString) int { return parse(string(k)) })
	case KeyNamedBytes:
		return newTyped[nBytes](cfg, func(i int) nBytes { return nBytes(text(i)) }, func(k nBytes) int { return parse(string(k)) })
	case KeyString:
		return newTyped[string](cfg, func(i int) string { return text(i) }, parse)
	case KeyBytes:
		return newTyped[[]byte](cfg, func(i int) []byte { return []byte(text(i)) },
			func(k []byte) int { return parse(string(k)) })
	}
	return nil, fmt.Errorf("bad key kind %d", cfg.KeyKind)
}

func suAlways(cur, prev *Val) bool    { return true }
func suRefuseAll(cur, prev *Val) bool { probe(PrShouldUpdateRefused); return false }
func suRefuseOdd(cur, prev *Val) bool {
	if cur != nil && cur.ID%2 == 1 {
		probe(PrShouldUpdateRefused)
		return false
	}
	return true
}

func cbCost(v *Val) int64 {
	if v == nil {
		return 0
	}
	return v.FnC
}
