package cachesim

import (
	"fmt"
	"math"
	"sort"
	"sync/atomic"
	"time"

	"github.com/dgraph-io/ristretto/v2"

	"verifsim/core"
)

// ---------------------------------------------------------------------------
// Site observers (task context, before parking)
// ---------------------------------------------------------------------------

func (e *Engine) onYield(site int, key uint64) bool {
	switch site {
	case ristrettoSiteIterShard, ristrettoSiteClearShard:
		if e.plan.Flags.HashDep {
			return false
		}
		return e.shardPark[key%256]
	case ristretto.VerifSiteDelSend:
		// the tombstone is about to be queued; it counts as queued from here on
		// (an over-approximation in the safe direction is not possible here, so
		// the event is logged after the send instead: see VerifSiteDelSent)
	case ristretto.VerifSiteTTLCleanupKey:
		e.sweepStage = 1
	case ristretto.VerifSitePolicyCost:
		if e.inSweep {
			e.sweepStage = 2
		}
	case ristretto.VerifSiteSetSend, ristretto.VerifSiteDelDetached:
		if e.inSweep {
			if t := e.sim.Self(); t != nil && t.Kind == core.KindClient {
				switch e.sweepStage {
				case 1:
					probe(PrWriteDuringSweepGrabToCheck)
				case 2:
					probe(PrWriteDuringSweepCheckToDel)
				}
			}
		}
	}
	// siteDelSent ("the tombstone has been queued") is logged by the scheduler
	// (flushNotifies): a sender that was blocked on a full buffer is woken by
	// the receiver and runs concurrently with it up to this park
	return true
}

const evDelQueued = 100 // synthetic hook event: tombstone enqueued
const siteDelSent = ristretto.VerifSiteDelSent

// ---------------------------------------------------------------------------
// C09 / C03: admission decisions (applier context)
// ---------------------------------------------------------------------------

func (e *Engine) c9Begin(key uint64, cost int64) {
	d := &e.dec9
	*d = decision9{active: true, key: key, cost: cost}
	kcs, used, max := e.api.PolicyCostsLocked()
	d.used, d.maxCost = used, max
	d.resident = make(map[uint64]int64, len(kcs))
	d.est = make(map[uint64]int64, len(kcs))
	d.pool = map[uint64]bool{}
	d.victims = map[uint64]bool{}
	d.victimSeen = map[uint64]bool{}
	for _, kc := range kcs {
		d.resident[kc.Key] = kc.Cost
		d.est[kc.Key] = e.api.EstimateLocked(kc.Key)
	}
	d.incEst = e.api.EstimateLocked(key)
	_, d.wasRes = d.resident[key]
	d.tooBig = cost > max
	d.fitsExp = !d.tooBig && !d.wasRes && cost <= max-used
	if !e.plan.Flags.NoLowerMax {
		// MaxCost may be lowered (atomically, without the policy lock) while the
		// decision runs: the rules that compare with the capacity read here do
		// not apply to such runs
		d.fitsExp = false
		d.lowering = true
	}
}

func (e *Engine) poolMin(d *decision9) (int64, bool) {
	first := true
	var m int64
	for k := range d.pool {
		if d.victims[k] {
			continue
		}
		if first || d.est[k] < m {
			m, first = d.est[k], false
		}
	}
	return m, !first
}

func (e *Engine) c9Victim(minKey uint64) {
	d := &e.dec9
	if !d.active {
		return
	}
	if _, res := d.resident[minKey]; !res || d.victims[minKey] {
		probe(PrPhantomVictim)
		return
	}
	if !d.pool[minKey] {
		e.violate("C09", "victim-not-sampled", fmt.Sprintf("victim %#x was evicted for %#x but was never among the sampled candidates", minKey, d.key), 0)
	}
	if m, ok := e.poolMin(d); ok && d.est[minKey] != m {
		e.violate("C09", "victim-not-minimum", fmt.Sprintf("victim %#x has estimate %d, but a sampled candidate has estimate %d", minKey, d.est[minKey], m), 0)
	}
	if d.est[minKey] > d.incEst {
		e.violate("C09", "victim-more-frequent", fmt.Sprintf("victim %#x (estimate %d) evicted for newcomer %#x (estimate %d)", minKey, d.est[minKey], d.key, d.incEst), 0)
	}
	d.victims[minKey] = true
	delete(d.pool, minKey)
	d.nReal++
}

func (e *Engine) c9Reject(key uint64) {
	d := &e.dec9
	if !d.active {
		return
	}
	d.rejected = true
	m, ok := e.poolMin(d)
	if !ok && d.lowering {
		return
	}
	if !ok {
		e.violate("C09", "rejected-empty-pool", fmt.Sprintf("newcomer %#x (cost %d, max %d, used %d) out-voted although no candidate was sampled", key, d.cost, d.maxCost, d.used), 0)
		return
	}
	if !(d.incEst < m) {
		e.violate("C09", "rejected-not-lower", fmt.Sprintf("newcomer %#x turned away with estimate %d although the least-frequent candidate has %d", key, d.incEst, m), 0)
	}
}

func (e *Engine) c9Added(key uint64, added bool, nvict int) {
	d := &e.dec9
	if !d.active || d.key != key {
		if !added && !e.keyAccounted(key) && e.curNew != nil && !e.allowedRejectCause(key, e.curNew) {
			// the applier turned a newcomer away without asking the policy, and
			// neither of the causes the harness can see for itself holds (too
			// large, key already resident)
			e.violate("C09", "turned-away-without-decision", fmt.Sprintf("newcomer %#x was not admitted although it is not larger than the cache, its key is not resident and the admission policy was never consulted for it", key), 0)
		}
		return
	}
	d.added = added
	if d.fitsExp {
		probe(PrFitsDecision)
		if !added || d.nReal > 0 || nvict > 0 {
			e.violate("C09", "fits-not-admitted", fmt.Sprintf("newcomer %#x cost %d fits (max %d used %d) but added=%v victims=%d", key, d.cost, d.maxCost, d.used, added, nvict), 0)
		}
	}
	if !added {
		if !(d.tooBig || d.wasRes || d.rejected || d.lowering) {
			e.violate("C09", "turned-away-without-cause", fmt.Sprintf("newcomer %#x cost %d (max %d used %d) not admitted: not too large, not resident, not out-voted", key, d.cost, d.maxCost, d.used), 0)
		}
		if d.rejected {
			probe(PrRejectDecision)
		}
	} else {
		if d.nReal > 0 {
			probe(PrEvictionDecision)
		}
		if d.nReal > 1 {
			probe(PrMultiVictim)
		}
		// the accounting as it was when Add released the policy lock
		used, max, sum := d.postUsed, d.postMax, d.postSum
		if !d.captured {
			e.abort = "admission decision without captured accounting"
		}
		if (used > max || d.postOver || d.postTrue > max) && !d.lowering {
			tot := fmt.Sprint(d.postTrue)
			if d.postOver {
				tot = "more than MaxInt64"
			}
			e.violate("C03", "over-capacity", fmt.Sprintf("admitting %#x (cost %d) left the accounted costs at %s (the cache's counter reads %d), above MaxCost=%d", key, d.cost, tot, used, max), 0)
		}
		if used != sum {
			e.violate("C03", "used-sum", fmt.Sprintf("used=%d differs from the sum of accounted costs %d", used, sum), 0)
		}
		if v := e.curNew; v != nil && e.plan.Flags.Injective && len(e.keyOfHash[key]) == 1 && e.keyOfHash[key][0] == v.Key {
			// the cost the caller gave (explicit, or through Config.Cost), before
			// the internal per-item cost is added
			given := v.Cost
			if given == 0 && e.plan.Cfg.CostFn {
				given = v.FnC
			}
			if given > max && !d.lowering {
				e.violate("C03", "too-big-admitted", fmt.Sprintf("value %d (key %d) was given cost %d, larger than MaxCost %d, and was admitted (accounted as %d)", v.ID, v.Key, given, max, d.cost), 0)
			}
		}
		if d.tooBig && !d.lowering {
			e.violate("C03", "too-big-admitted", fmt.Sprintf("item %#x with cost %d admitted although MaxCost was %d", key, d.cost, d.maxCost), 0)
		}
		if d.wasRes {
			e.violate("C09", "resident-readmitted", fmt.Sprintf("key %#x was already accounted but Add reported it as added", key), 0)
		}
	}
}

func (e *Engine) keyAccounted(key uint64) bool {
	kcs, _, _ := e.api.PolicyCostsLocked()
	for _, kc := range kcs {
		if kc.Key == key {
			return true
		}
	}
	return false
}

func (e *Engine) c9Done(key uint64) {
	d := &e.dec9
	if !d.active || d.key != key {
		return
	}
	if e.plan.Cfg.Callbacks {
		for k := range d.victims {
			if !d.victimSeen[k] {
				e.violate("C09", "victim-not-reported", fmt.Sprintf("key %#x was chosen as victim for newcomer %#x (added=%v) but was not reported through OnEvict before the newcomer had been dealt with", k, key, d.added), 0)
				break
			}
		}
	}
	if !d.added && e.plan.Cfg.Callbacks && d.rejSeq == 0 {
		e.violate("C09", "no-onreject", fmt.Sprintf("newcomer %#x was turned away but never reported through OnReject", key), 0)
	}
	d.active = false
}

// ---------------------------------------------------------------------------
// Quiescent-point checks (scheduler goroutine, everything parked)
// ---------------------------------------------------------------------------

func (e *Engine) checkQuiescent(final bool) {
	if !e.plan.Flags.Injective || e.closed || e.closing {
		return
	}
	probe(PrQuiescent)
	snap := e.api.Snapshot()
	now := time.Now()
	if snap.SetBufLen != 0 || snap.ItemsChLen != 0 {
		e.abort = fmt.Sprintf("quiescent point with non-empty buffers (%d,%d)", snap.SetBufLen, snap.ItemsChLen)
		return
	}
	// C03
	var sum int64
	for _, kc := range snap.KeyCosts {
		sum += kc.Cost
	}
	if snap.Used != sum {
		e.violate("C03", "used-sum", fmt.Sprintf("quiescent: used=%d, sum of accounted costs=%d", snap.Used, sum), 0)
	}
	rem, max := e.api.RemainingCost(), e.api.MaxCost()
	if rem != max-sum {
		e.violate("C03", "remaining", fmt.Sprintf("quiescent: RemainingCost()=%d but MaxCost()-sum=%d-%d", rem, max, sum), 0)
	}
	if e.plan.Flags.CostMonotone && rem < 0 {
		e.violate("C03", "remaining-negative", fmt.Sprintf("quiescent, cost-monotone history: RemainingCost()=%d < 0 (MaxCost %d)", rem, max), 0)
	} else if len(e.clients) == 1 && e.closer == nil && !e.raised && e.plan.Flags.NoLowerMax && !e.plan.Flags.Race {
		// a single writer, and so far no Set gave a key a larger cost than an
		// earlier one unless the key had been deleted and drained (or cleared)
		// in between: no overwrite has raised a resident key's cost
		probe(PrNoRaiseChecked)
		if rem < 0 {
			e.violate("C03", "remaining-negative", fmt.Sprintf("quiescent, single writer, no overwrite has raised a key's cost, MaxCost never lowered: RemainingCost()=%d < 0 (MaxCost %d)", rem, max), 0)
		}
	}
	// C13
	if e.plan.Flags.Injective {
		i, j := 0, 0
		for i < len(snap.Entries) || j < len(snap.KeyCosts) {
			switch {
			case j >= len(snap.KeyCosts) || (i < len(snap.Entries) && snap.Entries[i].Key < snap.KeyCosts[j].Key):
				e.violate("C13", "stored-not-accounted", fmt.Sprintf("quiescent: key %#x (logical %d) is in the map but not charged by the capacity accounting", snap.Entries[i].Key, e.logicalKey(snap.Entries[i].Key)), 0)
				i++
			case i >= len(snap.Entries) || snap.KeyCosts[j].Key < snap.Entries[i].Key:
				e.violate("C13", "accounted-not-stored", fmt.Sprintf("quiescent: key %#x (logical %d) is charged (cost %d) but absent from the map", snap.KeyCosts[j].Key, e.logicalKey(snap.KeyCosts[j].Key), snap.KeyCosts[j].Cost), 0)
				j++
			default:
				i++
				j++
			}
		}
	}
	// C13: IterValues in a scheduler-exclusive section
	var want []int
	for _, en := range snap.Entries {
		if !en.Expiration.IsZero() && now.After(en.Expiration) {
			continue
		}
		if en.Value != nil {
			want = append(want, en.Value.ID)
		}
	}
	sort.Ints(want)
	var got []int
	e.api.IterValues(func(v *Val) bool {
		if v != nil {
			got = append(got, v.ID)
		}
		return false
	})
	sort.Ints(got)
	if fmt.Sprint(got) != fmt.Sprint(want) {
		e.violate("C13", "iter-mismatch", fmt.Sprintf("quiescent: IterValues yielded value ids %v, unexpired resident values are %v", got, want), 0)
	}
	if len(want) > 0 && !e.plan.Flags.HashDep {
		s := e.dec.Choose(len(want)+1, core.LOther)
		n := 0
		e.api.IterValues(func(v *Val) bool { n++; return n > s })
		exp := s + 1
		if exp > len(want) {
			exp = len(want)
		}
		if n != exp {
			e.violate("C13", "iter-stop", fmt.Sprintf("quiescent: IterValues asked to stop after callback %d made %d callbacks over %d values", s+1, n, len(want)), 0)
		}
	}
	// C17
	if snap.Metrics != nil && e.epochValid && atomic.LoadInt32(&e.clearActive) == 0 {
		m := snap.Metrics
		const (
			hit = iota
			miss
			keyAdd
			keyUpdate
			keyEvict
			costAdd
			costEvict
			dropSets
			rejectSets
			dropGets
			keepGets
		)
		// a conservation law broken after a Clear of this run is also a cleared
		// cache that does not behave as a fresh one (C15): a new cache obeys them
		mv := func(rule, msg string, _ uint64) {
			e.violate("C17", rule, msg, 0)
			if atomic.LoadUint64(&e.lastClearInv) != 0 {
				e.violate("C15", "after-clear-metrics-"+rule, "after the Clear invoked at #"+fmt.Sprint(atomic.LoadUint64(&e.lastClearInv))+" the metrics do not behave as those of a new cache: "+msg, 0)
			}
		}
		mt := e.api.Metrics()
		hits, misses := mt.Hits(), mt.Misses()
		gets := uint64(atomic.LoadInt64(&e.getsDone))
		if hits+misses != gets {
			mv("hits-misses", fmt.Sprintf("quiescent: Hits+Misses=%d+%d, Get calls since creation/Clear=%d", hits, misses, gets), 0)
		}
		if ka, ke := mt.KeysAdded(), mt.KeysEvicted(); ka-ke != uint64(len(snap.KeyCosts)) {
			mv("keys", fmt.Sprintf("quiescent: KeysAdded-KeysEvicted=%d-%d, resident keys=%d", ka, ke, len(snap.KeyCosts)), 0)
		}
		if ca, ce := mt.CostAdded(), mt.CostEvicted(); ca-ce != uint64(max-rem) {
			mv("cost", fmt.Sprintf("quiescent: CostAdded-CostEvicted=%d-%d=%d, MaxCost-RemainingCost=%d", ca, ce, ca-ce, max-rem), 0)
		}
		if sd := mt.SetsDropped(); sd != uint64(atomic.LoadInt64(&e.setsFalse)) {
			mv("sets-dropped", fmt.Sprintf("quiescent: SetsDropped=%d, Sets refused with a full buffer=%d", sd, e.setsFalse), 0)
		}
		if kd := mt.GetsKept() + mt.GetsDropped(); kd > uint64(atomic.LoadInt64(&e.getsStartedEver)) {
			mv("gets-kept-dropped", fmt.Sprintf("quiescent: GetsKept+GetsDropped=%d exceeds Gets=%d", kd, e.getsStartedEver), 0)
		}
		_ = m
		probe(PrMetricsChecked)
	}
	if final {
		e.checkFinalTTL(snap, now, e.finalProp)
	}
}

// checkFinalTTL: C14 "eventually" clause, after the epilogue advanced the
// clock far beyond every expiration while the cache kept processing writes.
func (e *Engine) checkFinalTTL(snap *ristretto.VerifSnap[*Val], now time.Time, prop string) {
	if prop == "" {
		prop = "C14"
	}
	n := int(atomic.LoadInt32(&e.nvals))
	for i := 0; i < n; i++ {
		v := e.vals[i]
		if v == nil || v.Accepted != 1 || v.TTL <= 0 || v.RetT == 0 {
			continue
		}
		if now.UnixNano() <= satAdd(v.RetT, v.TTL) {
			continue // a ttl of years has not elapsed
		}
		if v.NExit == 0 {
			e.violate(prop, "expired-never-reclaimed", fmt.Sprintf("value %d (key %d, ttl %v, set at +%v) expired long ago but was never released", v.ID, v.Key, time.Duration(v.TTL), time.Duration(v.InvT-e.startT.UnixNano())), 0)
		}
	}
	for _, en := range snap.Entries {
		if !en.Expiration.IsZero() && now.After(en.Expiration.Add(time.Minute)) {
			id := -1
			if en.Value != nil {
				id = en.Value.ID
			}
			e.violate(prop, "expired-entry-resident", fmt.Sprintf("key %#x (logical %d, value %d) expired at %v but is still held %v later", en.Key, e.logicalKey(en.Key), id, en.Expiration.Sub(e.startT), now.Sub(en.Expiration)), 0)
		}
	}
	for _, kc := range snap.KeyCosts {
		found := false
		for _, en := range snap.Entries {
			if en.Key == kc.Key {
				found = true
			}
		}
		if !found && e.plan.Flags.Injective {
			e.violate(prop, "capacity-not-released", fmt.Sprintf("key %#x is still charged %d although it is not stored", kc.Key, kc.Cost), 0)
		}
	}
}

// checkSteadyTTL (C14 "eventually", steady clock): the epilogue has advanced
// the clock in steps of half an expiry-bucket width (a width this run set
// through the harness knob), writing and waiting at every step, for twice the
// bucket width plus twice the ticker period and a margin. With the clock
// moving steadily - no long gaps that would make a sweep look at many periods
// at once - every entry whose TTL had already elapsed when the phase began
// must have been reclaimed by now.
func (e *Engine) checkSteadyTTL() {
	if e.steadyT0 == 0 {
		return
	}
	n := int(atomic.LoadInt32(&e.nvals))
	for i := 0; i < n; i++ {
		v := e.vals[i]
		if v == nil || v.Accepted != 1 || v.TTL <= 0 || v.RetT == 0 {
			continue
		}
		if satAdd(v.RetT, v.TTL) >= e.steadyT0 {
			continue // had not certainly expired when the phase began
		}
		probe(PrSteadyChecked)
		if v.NExit == 0 {
			e.violate("C14", "expired-never-reclaimed", fmt.Sprintf("value %d (key %d, ttl %v) had expired before the clock started to move steadily (%v of simulated time in steps of half a bucket width, a write and a Wait at each) and still has not been released", v.ID, v.Key, time.Duration(v.TTL), time.Duration(time.Now().UnixNano()-e.steadyT0)), 0)
		}
	}
}

func (e *Engine) checkEmpty() {
	// precondition of the property's last sentence: every key has been
	// deleted, expired-and-swept or cleared
	n := int(atomic.LoadInt32(&e.nvals))
	for i := 0; i < n; i++ {
		v := e.vals[i]
		if v != nil && v.Accepted == 1 && v.NExit == 0 {
			probe(PrEmptyCheckSkipped)
			return
		}
	}
	snap := e.api.Snapshot()
	rem, max := e.api.RemainingCost(), e.api.MaxCost()
	if len(snap.Entries) != 0 || len(snap.KeyCosts) != 0 {
		e.violate("C13", "not-empty", fmt.Sprintf("after every key was removed: %d entries in the map, %d keys charged", len(snap.Entries), len(snap.KeyCosts)), 0)
	}
	if rem != max {
		e.violate("C13", "capacity-not-restored", fmt.Sprintf("after every key was removed: RemainingCost()=%d, MaxCost()=%d", rem, max), 0)
	}
	cnt := 0
	e.api.IterValues(func(v *Val) bool { cnt++; return false })
	if cnt != 0 {
		e.violate("C13", "enumerates-after-empty", fmt.Sprintf("after every key was removed IterValues made %d callbacks", cnt), 0)
	}
	probe(PrEmptyChecked)
}

func (e *Engine) checkFresh() {
	snap := e.api.Snapshot()
	rem, max := e.api.RemainingCost(), e.api.MaxCost()
	if len(snap.Entries) != 0 || len(snap.KeyCosts) != 0 || snap.Used != 0 {
		e.violate("C15", "clear-not-empty", fmt.Sprintf("after Clear: %d entries, %d keys charged, used=%d", len(snap.Entries), len(snap.KeyCosts), snap.Used), 0)
	}
	if rem != max {
		e.violate("C15", "clear-capacity", fmt.Sprintf("after Clear: RemainingCost()=%d, MaxCost()=%d", rem, max), 0)
	}
	if snap.SetBufLen != 0 {
		e.violate("C15", "clear-buffer", fmt.Sprintf("after Clear with no concurrent caller the write buffer holds %d items", snap.SetBufLen), 0)
	}
	for i, x := range snap.Metrics {
		if x != 0 {
			e.violate("C15", "clear-metrics", fmt.Sprintf("after Clear metric #%d is %d", i, x), 0)
		}
	}
	cnt := 0
	e.api.IterValues(func(v *Val) bool { cnt++; return false })
	if cnt != 0 {
		e.violate("C15", "clear-enumerates", fmt.Sprintf("after Clear IterValues made %d callbacks", cnt), 0)
	}
	e.checkSketchFresh()
	// every value accepted before the Clear has been released (C04 deadline, checked here too)
	probe(PrFreshChecked)
}

// checkSketchFresh: "serves new writes as a fresh one would" includes the
// admission filter. After a Clear the access-frequency estimate of every key
// is that of a new cache, zero, unless the policy goroutine has recorded a
// batch of accesses since that Clear was invoked (batches queued before a
// Clear are legitimately counted after it).
func (e *Engine) checkSketchFresh() {
	if atomic.LoadUint64(&e.lastPolicyPush) >= atomic.LoadUint64(&e.lastClearInv) {
		return
	}
	for k, h := range e.keyHash {
		if est := e.api.Estimate(h); est != 0 {
			e.violate("C15", "clear-keeps-frequencies", fmt.Sprintf("after Clear (no accesses recorded since) key %d still has an access-frequency estimate of %d; a new cache estimates 0", k, est), 0)
			break
		}
	}
	probe(PrSketchFreshChecked)
}

// probeClosed: after Close returned, every operation is a harmless no-op.
func (e *Engine) probeClosed(cl *client, oi int) {
	k := 0
	v := e.newVal(k, Op{K: OpSet, Key: k, Cost: 1}, cl.id)
	v.InvT = time.Now().UnixNano()
	v.InvSeq = e.log(Ev{Kind: EvInvoke, Op: OpSet, Task: int16(cl.id), OpIx: int16(oi), Key: int32(k), Val: int32(v.ID), A: 1})
	ok := e.api.Set(k, v, 1, 0)
	v.RetT = time.Now().UnixNano()
	v.Accepted = -1
	if ok {
		v.Accepted = 1
		e.violate("C15", "closed-set-true", "Set returned true on a closed cache", 0)
	}
	v.RetSeq = e.log(Ev{Kind: EvReturn, Op: OpSet, Task: int16(cl.id), OpIx: int16(oi), Key: int32(k), Val: int32(v.ID), OK: ok, B: 1})
	for k := 0; k < e.nkeys; k++ {
		if x, ok := e.api.Get(k); ok || x != nil {
			e.violate("C15", "closed-get-hit", fmt.Sprintf("Get(%d) on a closed cache returned (%v,%v)", k, vid(x), ok), 0)
		}
		if d, ok := e.api.GetTTL(k); ok {
			e.violate("C15", "closed-getttl", fmt.Sprintf("GetTTL(%d) on a closed cache returned (%v,true)", k, d), 0)
		}
	}
	cnt := 0
	e.api.IterValues(func(*Val) bool { cnt++; return false })
	if cnt != 0 {
		e.violate("C15", "closed-iter", fmt.Sprintf("IterValues on a closed cache made %d callbacks", cnt), 0)
	}
	e.api.Del(0)
	e.api.Wait()
	e.api.Clear()
	e.api.Close()
	_ = e.api.MaxCost()
	_ = e.api.RemainingCost()
	probe(PrClosedProbed)
}

// ---------------------------------------------------------------------------
// History checks (after the run)
// ---------------------------------------------------------------------------

type opRec struct {
	Task, OpIx     int
	K              int
	Key            int
	InvSeq, RetSeq uint64
	InvT, RetT     int64
	Val            int
	OK             bool
	A, B           int64
	Closed         bool
	Items          []int // Iter: value ids
	Arg            int64
	SetFlag        int // Set: what the enqueue step saw: -1 unknown, 0 new key, 2 overwrite of a stored entry
}

func (e *Engine) buildOps() []*opRec {
	var ops []*opRec
	open := map[uint64]*opRec{}
	openSet := map[int]*opRec{} // task -> Set in flight
	n := int(e.nevs)
	if n > maxEvs {
		n = maxEvs
	}
	for i := 0; i < n; i++ {
		ev := &e.evs[i]
		switch ev.Kind {
		case EvInvoke:
			r := &opRec{Task: int(ev.Task), OpIx: int(ev.OpIx), K: int(ev.Op), Key: int(ev.Key), InvSeq: ev.Seq, InvT: ev.T, Val: int(ev.Val), A: ev.A, B: ev.B, Arg: ev.A, SetFlag: -1}
			open[ev.Seq] = r
			ops = append(ops, r)
			if r.K == OpSet {
				openSet[r.Task] = r
			}
		case EvHook:
			// the enqueue step of a Set tells whether it overwrote a stored entry;
			// attributable without ambiguity only when one Set is in flight
			if ev.Op == evSetQueued || ev.Op == evSetDropped {
				if len(openSet) == 1 {
					for _, r := range openSet {
						if r.SetFlag == -1 && r.Key >= 0 && r.Key < len(e.keyHash) && e.keyHash[r.Key] == ev.H {
							r.SetFlag = int(ev.A)
						}
					}
				}
			}
		case EvReturn:
			if r := open[ev.Ref]; r != nil {
				if r.K == OpSet {
					delete(openSet, r.Task)
				}
				r.RetSeq, r.RetT, r.OK = ev.Seq, ev.T, ev.OK
				if r.K == OpGet {
					r.Val = int(ev.Val)
				}
				if r.K != OpSet {
					r.A = ev.A
				}
				r.Closed = ev.B == 1
			}
		case EvIterItem:
			if r := open[ev.Ref]; r != nil {
				r.Items = append(r.Items, int(ev.Val))
			}
		}
	}
	return ops
}

func (e *Engine) val(id int) *Val {
	if id < 0 || id >= int(e.nvals) {
		return nil
	}
	return e.vals[id]
}

func (e *Engine) checkHistory() {
	ops := e.buildOps()
	e.checkC01(ops)
	if !e.plan.Flags.Injective {
		// Key sets engineered to collide on the primary hash are in C01's
		// quantifier only. C02's statement is universal and holds on such key
		// sets too, so its rule is evaluated there as well; every other oracle
		// is silent (see DESIGN.md section 19, item 2).
		e.checkC02(ops)
		return
	}
	e.checkC02(ops)
	e.checkC04(ops)
	e.checkC05(ops)
	e.checkC07(ops)
	e.checkC14()
	e.checkWaitApplied(ops)
	e.checkIterDup(ops)
	if e.plan.Flags.SingleClient && e.plan.Flags.AllFits && e.plan.Flags.Injective {
		e.checkModel(ops)
	}
	e.checkFreshByModel(ops)
}

// mviolate reports a finding of the reference model: under its own property,
// or, when the model is deciding "a cleared cache serves as a fresh one would",
// under C15.
func (e *Engine) mviolate(prop, rule, msg string, seq uint64) {
	if e.modelAs != "" {
		prop, rule, msg = e.modelAs, "after-clear-"+rule, "on the cache cleared at #"+fmt.Sprint(e.modelFrom)+", compared with a new cache: "+msg
	}
	e.violate(prop, rule, msg, seq)
}

// checkFreshByModel (C15): the epilogue task runs alone. From the return of
// its first Clear on, the cache must accept and serve writes as a new one
// would: the single-client reference model, started from the empty state,
// decides every read the epilogue makes afterwards (everything-fits runs).
func (e *Engine) checkFreshByModel(ops []*opRec) {
	if e.epi == nil || !e.plan.Flags.AllFits || !e.plan.Flags.Injective || e.plan.Flags.SingleClient {
		return
	}
	sort.Slice(ops, func(i, j int) bool { return ops[i].InvSeq < ops[j].InvSeq })
	var start *opRec
	for _, o := range ops {
		if o.Task == e.epi.id && o.K == OpClear && o.RetSeq != 0 && !o.Closed {
			start = o
			break
		}
	}
	if start == nil {
		return
	}
	var suffix []*opRec
	for _, o := range ops {
		if o.Task != e.epi.id {
			if o.RetSeq == 0 || o.RetSeq > start.InvSeq {
				return // somebody else was still active: not a clean start
			}
			continue
		}
		if o.InvSeq > start.RetSeq {
			suffix = append(suffix, o)
		}
	}
	if len(suffix) == 0 {
		return
	}
	probe(PrFreshModelChecked)
	e.modelAs, e.modelFrom = "C15", start.InvSeq
	e.checkModel(suffix)
	e.modelAs = ""
}

// satAdd adds a non-negative duration to an instant (both in ns) without
// wrapping around: TTLs go up to math.MaxInt64.
func satAdd(t, d int64) int64 {
	if d > 0 && t > math.MaxInt64-d {
		return math.MaxInt64
	}
	return t + d
}

// guaranteedDistinct: the property promises separation of two different keys
// when their primary hashes differ, or when both conflict hashes are non-zero
// and differ.
func (e *Engine) guaranteedDistinct(a, b int) bool {
	if a == b || a < 0 || b < 0 || a >= e.nkeys || b >= e.nkeys {
		return false
	}
	if e.plan.Cfg.Hasher == HashDefault {
		// The default hasher is part of the system under test: integer kinds are
		// hashed by identity, strings and byte slices by two independent 64-bit
		// hashes, so two different keys are never confused (whatever hashes the
		// cache actually computed for them).
		return true
	}
	// custom hasher: what the run's own hash table promises
	ka, kb := e.plan.Cfg.Keys[a], e.plan.Cfg.Keys[b]
	if ka.Hash != kb.Hash {
		return true
	}
	return ka.Conflict != 0 && kb.Conflict != 0 && ka.Conflict != kb.Conflict
}

func (e *Engine) checkC01(ops []*opRec) {
	for _, g := range ops {
		if g.K != OpGet || g.RetSeq == 0 || !g.OK {
			continue
		}
		probe(PrGetHit)
		v := e.val(g.Val)
		if v == nil {
			e.violate("C01", "found-nil", fmt.Sprintf("Get(key %d) reported found=true with a value nobody stored", g.Key), g.RetSeq)
			continue
		}
		if v.Key != g.Key {
			if e.guaranteedDistinct(v.Key, g.Key) {
				e.violate("C01", "wrong-key", fmt.Sprintf("Get(key %d) returned value %d, which was written under key %d (hashes %#x/%#x vs %#x/%#x)", g.Key, v.ID, v.Key,
					e.keyHash[g.Key], e.keyConf[g.Key], e.keyHash[v.Key], e.keyConf[v.Key]), g.RetSeq)
			} else {
				probe(PrUnguaranteedCollision)
			}
		} else if e.keyHash != nil && len(e.keyOfHash[e.keyHash[g.Key]]) > 1 {
			probe(PrCollisionUsed)
		}
		if v.InvSeq == 0 || v.InvSeq > g.RetSeq {
			e.violate("C01", "from-the-future", fmt.Sprintf("Get(key %d) returned value %d before its Set began", g.Key, v.ID), g.RetSeq)
		}
	}
}

func (e *Engine) checkC02(ops []*opRec) {
	for _, g := range ops {
		if g.K != OpGet || g.RetSeq == 0 || !g.OK {
			continue
		}
		v := e.val(g.Val)
		if v == nil {
			continue
		}
		if v.ExitSeq != 0 {
			probe(PrExitBeforeGet)
		}
		if v.ExitSeq != 0 && v.ExitSeq < g.InvSeq {
			e.violate("C02", "served-after-exit", fmt.Sprintf("Get(key %d) invoked at #%d returned value %d, which was passed to OnExit at #%d", g.Key, g.InvSeq, v.ID, v.ExitSeq), g.RetSeq)
		}
	}
}

// keyBusy: some Set/Del on key is in flight at some moment of [a,b].
func keyBusy(ops []*opRec, key int, a, b uint64, skip *opRec) bool {
	for _, o := range ops {
		if o == skip || o.Key != key || (o.K != OpSet && o.K != OpDel) {
			continue
		}
		if o.InvSeq < b && (o.RetSeq == 0 || o.RetSeq > a) {
			return true
		}
	}
	return false
}

func (e *Engine) checkC04(ops []*opRec) {
	n := int(e.nvals)
	for i := 0; i < n; i++ {
		v := e.vals[i]
		if v == nil {
			continue
		}
		if v.Accepted == -1 && (v.NExit+v.NEvict+v.NReject) > 0 {
			e.violate("C04", "refused-value-in-callback", fmt.Sprintf("value %d (key %d): Set returned false but callbacks fired (exit %d evict %d reject %d)", v.ID, v.Key, v.NExit, v.NEvict, v.NReject), v.RetSeq)
		}
		if v.NExit > 1 {
			e.violate("C04", "double-exit", fmt.Sprintf("value %d (key %d) passed to OnExit %d times", v.ID, v.Key, v.NExit), v.ExitSeq)
		}
		if v.NEvict > 1 {
			e.violate("C04", "double-evict", fmt.Sprintf("value %d (key %d) passed to OnEvict %d times", v.ID, v.Key, v.NEvict), v.EvictSeq)
		}
		if v.NReject > 1 {
			e.violate("C04", "double-reject", fmt.Sprintf("value %d (key %d) passed to OnReject %d times", v.ID, v.Key, v.NReject), v.RejectSeq)
		}
		if (v.NEvict > 0 || v.NReject > 0) && v.NExit == 0 && e.abortFree() {
			e.violate("C04", "evict-without-exit", fmt.Sprintf("value %d (key %d) was evicted/rejected but never passed to OnExit", v.ID, v.Key), v.EvictSeq)
		}
	}
	// deadlines: Clear / Close
	for _, c := range ops {
		if (c.K != OpClear && c.K != OpClose) || c.RetSeq == 0 || c.Closed {
			continue
		}
		for i := 0; i < n; i++ {
			v := e.vals[i]
			if v == nil || v.Accepted != 1 || v.RetSeq == 0 || v.RetSeq > c.InvSeq {
				continue
			}
			if v.ExitSeq != 0 && v.ExitSeq < c.RetSeq {
				continue
			}
			if keyBusy(ops, v.Key, c.InvSeq, c.RetSeq, nil) {
				probe(PrDeadlineExempt)
				continue
			}
			e.violate("C04", "not-released-by-clear", fmt.Sprintf("value %d (key %d) was accepted at #%d but not passed to OnExit by the return (#%d) of the %s invoked at #%d", v.ID, v.Key, v.RetSeq, c.RetSeq, OpNames[c.K], c.InvSeq), c.RetSeq)
			if c.K == OpClose {
				// C15: after Close returns every value still held or buffered has been released
				e.violate("C15", "not-released-by-close", fmt.Sprintf("value %d (key %d, accepted at #%d) was still held when Close [#%d,#%d] returned and was never passed to the callbacks", v.ID, v.Key, v.RetSeq, c.InvSeq, c.RetSeq), c.RetSeq)
			}
		}
	}
	// retrievable after exit (same rule as C02, part of C04's statement)
	for _, g := range ops {
		if g.K != OpGet || g.RetSeq == 0 || !g.OK {
			continue
		}
		if v := e.val(g.Val); v != nil && v.ExitSeq != 0 && v.ExitSeq < g.InvSeq {
			e.violate("C04", "retrievable-after-exit", fmt.Sprintf("value %d (key %d) was returned by a Get invoked at #%d after its OnExit at #%d", v.ID, v.Key, g.InvSeq, v.ExitSeq), g.RetSeq)
		}
	}
	// final: after Close at the end of a complete run every accepted value left exactly once
	if e.closed && e.abortFree() {
		for i := 0; i < n; i++ {
			v := e.vals[i]
			if v != nil && v.Accepted == 1 && v.NExit == 0 {
				e.violate("C04", "leaked", fmt.Sprintf("value %d (key %d, Set accepted at #%d) was never passed to OnExit although the cache was closed", v.ID, v.Key, v.RetSeq), v.RetSeq)
			}
		}
	}
}

func (e *Engine) abortFree() bool { return !e.sim.Panicked() && e.abort == "" }

func (e *Engine) checkC05(ops []*opRec) {
	var dels, waits []*opRec
	for _, o := range ops {
		if o.RetSeq == 0 || o.Closed {
			continue
		}
		switch o.K {
		case OpDel:
			dels = append(dels, o)
		case OpWait:
			waits = append(waits, o)
		}
	}
	if len(dels) == 0 || len(waits) == 0 {
		return
	}
	// earliest completed Wait that was invoked after seq
	waitAfter := func(seq uint64) *opRec {
		var best *opRec
		for _, w := range waits {
			if w.InvSeq > seq && (best == nil || w.RetSeq < best.RetSeq) {
				best = w
			}
		}
		return best
	}
	// a Clear/Close in flight at some moment of [a,b]
	clearBusy := func(a, b uint64) bool {
		for _, o := range ops {
			if (o.K == OpClear || o.K == OpClose) && o.InvSeq < b && (o.RetSeq == 0 || o.RetSeq > a) {
				return true
			}
		}
		return false
	}
	for _, d := range dels {
		w := waitAfter(d.RetSeq)
		if w == nil {
			continue
		}
		probe(PrC05Checks)
		// (a) no Get after the Wait returns a value whose Set had completed before the Del was issued
		for _, g := range ops {
			if g.K != OpGet || g.Key != d.Key || g.RetSeq == 0 || !g.OK || g.InvSeq < w.RetSeq {
				continue
			}
			v := e.val(g.Val)
			if v == nil || v.Key != d.Key {
				continue
			}
			if clearBusy(d.InvSeq, g.RetSeq) {
				// Clear is documented as not atomic with respect to concurrent
				// calls: while it runs it may release the Wait and drop the
				// tombstone before it has emptied the map.
				probe(PrC05ClearExempt)
				continue
			}
			if v.RetSeq != 0 && v.RetSeq < d.InvSeq {
				e.violate("C05", "resurrected", fmt.Sprintf("Del(key %d) [#%d,#%d] then Wait [#%d,#%d]; Get invoked at #%d still returned value %d whose Set had returned at #%d", d.Key, d.InvSeq, d.RetSeq, w.InvSeq, w.RetSeq, g.InvSeq, v.ID, v.RetSeq), g.RetSeq)
			}
		}
		// (b) the deleted values are released
		n := int(e.nvals)
		for i := 0; i < n; i++ {
			v := e.vals[i]
			if v == nil || v.Key != d.Key || v.Accepted != 1 || v.RetSeq == 0 || v.RetSeq > d.InvSeq {
				continue
			}
			if v.ExitSeq != 0 && v.ExitSeq < w.RetSeq {
				continue
			}
			if keyBusy(ops, d.Key, d.InvSeq, w.RetSeq, d) || clearBusy(d.InvSeq, w.RetSeq) {
				continue
			}
			e.violate("C05", "deleted-not-released", fmt.Sprintf("value %d (key %d, accepted at #%d) was not passed to OnExit by the return (#%d) of the Wait that followed Del [#%d,#%d]", v.ID, v.Key, v.RetSeq, w.RetSeq, d.InvSeq, d.RetSeq), w.RetSeq)
		}
	}
}

func (e *Engine) checkC07(ops []*opRec) {
	// maximum ttl ever given per key (for the GetTTL bound in arbitrary histories)
	for _, o := range ops {
		if o.RetSeq == 0 {
			continue
		}
		switch o.K {
		case OpSet:
			if o.B < 0 { // negative ttl
				if o.OK {
					e.violate("C07", "negative-ttl-accepted", fmt.Sprintf("SetWithTTL(key %d, ttl %v) returned true", o.Key, time.Duration(o.B)), o.RetSeq)
				}
			}
		case OpGet:
			if !o.OK {
				continue
			}
			v := e.val(o.Val)
			if v == nil {
				continue
			}
			e.lateRule(o, v, "Get")
			if v.TTL > 0 && v.RetT != 0 && o.RetT < satAdd(v.InvT, v.TTL) {
				probe(PrTTLHit)
			}
		case OpIter:
			for _, id := range o.Items {
				if v := e.val(id); v != nil {
					e.lateRule(o, v, "IterValues")
				}
			}
		case OpGetTTL:
			if !o.OK || o.A <= 0 {
				continue
			}
			var maxTTL int64
			n := int(e.nvals)
			for i := 0; i < n; i++ {
				v := e.vals[i]
				if v != nil && v.Key == o.Key && v.InvSeq < o.RetSeq && v.TTL > maxTTL {
					maxTTL = v.TTL
				}
			}
			if o.A > maxTTL {
				e.violate("C07", "getttl-exceeds-ttl", fmt.Sprintf("GetTTL(key %d) reported %v remaining, more than any ttl ever given for that key (%v)", o.Key, time.Duration(o.A), time.Duration(maxTTL)), o.RetSeq)
			}
		}
	}
}

func (e *Engine) lateRule(o *opRec, v *Val, what string) {
	if v.TTL < 0 {
		e.violate("C07", "negative-ttl-served", fmt.Sprintf("%s yielded value %d which was written with a negative ttl", what, v.ID), o.RetSeq)
		return
	}
	if v.TTL == 0 || v.RetT == 0 {
		return
	}
	if o.InvT > satAdd(v.RetT, v.TTL) {
		e.violate("C07", "served-after-expiry", fmt.Sprintf("%s invoked at +%v yielded value %d (key %d) whose ttl %v elapsed at the latest at +%v", what,
			time.Duration(o.InvT-e.startT.UnixNano()), v.ID, v.Key, time.Duration(v.TTL), time.Duration(satAdd(v.RetT, v.TTL)-e.startT.UnixNano())), o.RetSeq)
	} else if o.RetT >= satAdd(v.InvT, v.TTL) {
		probe(PrGetAtExpiry)
	}
}

func (e *Engine) checkC14() {
	n := int(e.nvals)
	for i := 0; i < n; i++ {
		v := e.vals[i]
		if v == nil || v.NEvict == 0 || !v.EvictInSweep {
			continue
		}
		probe(PrSweepEvictChecked)
		if v.NEvict > 1 {
			e.violate("C14", "reported-twice", fmt.Sprintf("value %d (key %d) was reported through OnEvict %d times", v.ID, v.Key, v.NEvict), v.EvictSeq)
		}
		if v.TTL <= 0 {
			e.violate("C14", "sweep-evicted-no-ttl", fmt.Sprintf("expiry processing evicted value %d (key %d) which was written without a TTL", v.ID, v.Key), v.EvictSeq)
			continue
		}
		if v.EvictT < satAdd(v.InvT, v.TTL) {
			e.violate("C14", "sweep-evicted-early", fmt.Sprintf("expiry processing evicted value %d (key %d) at +%v, before its expiration (not before +%v)", v.ID, v.Key,
				time.Duration(v.EvictT-e.startT.UnixNano()), time.Duration(satAdd(v.InvT, v.TTL)-e.startT.UnixNano())), v.EvictSeq)
		}
	}
}

// checkWaitApplied: Wait returns only after every write buffered before it
// has been applied (or drained by a Clear).
func (e *Engine) checkWaitApplied(ops []*opRec) {
	var qs, ds []uint64
	n := int(e.nevs)
	if n > maxEvs {
		n = maxEvs
	}
	for i := 0; i < n; i++ {
		ev := &e.evs[i]
		if ev.Kind != EvHook {
			continue
		}
		switch ev.Op {
		case evSetQueued, evDelQueued:
			qs = append(qs, ev.Seq)
		case evApplierDone, evClearDrained:
			ds = append(ds, ev.Seq)
		}
	}
	for _, w := range ops {
		if w.K != OpWait || w.RetSeq == 0 || w.Closed {
			continue
		}
		nq := sort.Search(len(qs), func(i int) bool { return qs[i] >= w.InvSeq })
		nd := sort.Search(len(ds), func(i int) bool { return ds[i] >= w.RetSeq })
		if nq > nd && !e.closedBefore(w.RetSeq) {
			e.violate("C06", "wait-before-applied", fmt.Sprintf("Wait [#%d,#%d] returned although only %d of the %d writes buffered before it had been applied", w.InvSeq, w.RetSeq, nd, nq), w.RetSeq)
		}
	}
}

func (e *Engine) closedBefore(seq uint64) bool {
	n := int(e.nevs)
	if n > maxEvs {
		n = maxEvs
	}
	for i := 0; i < n; i++ {
		ev := &e.evs[i]
		if ev.Seq >= seq {
			break
		}
		if ev.Kind == EvInvoke && ev.Op == OpClose {
			return true
		}
	}
	return false
}

// ---------------------------------------------------------------------------
// C06 / C07: partial reference model for single-client, everything-fits runs
// ---------------------------------------------------------------------------

const (
	kAbsent = iota
	kPending
	kResident
	kUnknown
	kDeletedClean
	kDeletedDirty
	kExpired
	kSettled
	kRefused // Resident(v) plus a refused newcomer still waiting in the write buffer
)

type kstate struct {
	st int
	v  *Val
}

func (e *Engine) checkModel(ops []*opRec) {
	sort.Slice(ops, func(i, j int) bool { return ops[i].InvSeq < ops[j].InvSeq })
	ks := make([]kstate, e.nkeys)
	closed := false
	certainlyUnexpired := func(v *Val, t int64) bool { return v.TTL == 0 || t < satAdd(v.InvT, v.TTL) }
	certainlyExpired := func(v *Val, t int64) bool { return v.TTL > 0 && t > satAdd(v.RetT, v.TTL) }
	// checkTTL: a GetTTL hit that can only be about value v reports v's expiry:
	// nothing for ttl=0, otherwise a remaining time inside the interval the
	// call times allow and never above the ttl given.
	checkTTL := func(o *opRec, v *Val) {
		d := o.A
		if v.TTL == 0 && d != 0 {
			e.mviolate("C07", "getttl-no-ttl", fmt.Sprintf("GetTTL(key %d) reported %v for an item written without ttl", o.Key, time.Duration(d)), o.RetSeq)
		}
		if v.TTL > 0 {
			lo := satAdd(v.InvT, v.TTL) - o.RetT
			hi := satAdd(v.RetT, v.TTL) - o.InvT
			if satAdd(v.RetT, v.TTL) == math.MaxInt64 {
				// the expiration instant is beyond what fits in the oracle's
				// arithmetic: only the upper bound "no more than the ttl given"
				lo, hi = 0, v.TTL
			}
			if d > v.TTL || d > hi || d < lo {
				e.mviolate("C07", "getttl-range", fmt.Sprintf("GetTTL(key %d) reported %v for value %d; ttl given %v, consistent range [%v,%v]", o.Key, time.Duration(d), v.ID, time.Duration(v.TTL), time.Duration(lo), time.Duration(hi)), o.RetSeq)
			}
		}
	}
	for _, o := range ops {
		if o.RetSeq == 0 {
			break
		}
		if closed || o.Closed {
			closed = true
			continue
		}
		switch o.K {
		case OpClose:
			closed = true
		case OpClear:
			for i := range ks {
				ks[i] = kstate{st: kAbsent}
			}
		case OpSet:
			if o.B < 0 || !o.OK {
				continue
			}
			v := e.val(o.Val)
			s := &ks[o.Key]
			// Config.ShouldUpdate refusing this value: an entry that is in the map
			// stays as it is (value and expiration), and the newcomer is turned
			// away by the policy later because the key is already accounted
			refuses := e.plan.Cfg.ShouldUpdate == SURefuseAll || (e.plan.Cfg.ShouldUpdate == SURefuseOdd && v != nil && v.ID%2 == 1)
			if refuses {
				switch s.st {
				case kResident:
					// The entry stays, but the refused value is still queued as a new
					// item: it is turned away if it is applied while the entry is
					// accounted, and admitted if the entry has gone by then.
					if certainlyUnexpired(s.v, o.RetT) {
						*s = kstate{kRefused, s.v}
					} else {
						*s = kstate{st: kUnknown}
					}
				case kAbsent, kDeletedClean:
					*s = kstate{kPending, v} // nothing to refuse against: a plain insert
				default:
					*s = kstate{st: kUnknown}
				}
				continue
			}
			if o.SetFlag == 2 && (s.st == kExpired || s.st == kResident || s.st == kPending || s.st == kSettled) {
				// the Set replaced an entry that was in the map (possibly expired
				// and not yet swept): an overwrite is visible immediately, and no
				// tombstone for the key is pending in these states
				*s = kstate{kResident, v}
				continue
			}
			switch s.st {
			case kAbsent, kExpired, kDeletedClean:
				*s = kstate{kPending, v}
			case kResident:
				if certainlyUnexpired(s.v, o.RetT) {
					*s = kstate{kResident, v}
				} else {
					*s = kstate{kPending, v}
				}
			default:
				*s = kstate{st: kUnknown}
			}
		case OpDel:
			s := &ks[o.Key]
			switch s.st {
			case kAbsent, kResident, kExpired, kDeletedClean:
				*s = kstate{st: kDeletedClean}
			default:
				*s = kstate{st: kDeletedDirty}
			}
		case OpWait:
			for i := range ks {
				switch ks[i].st {
				case kPending:
					ks[i].st = kResident
				case kDeletedClean, kDeletedDirty:
					ks[i] = kstate{st: kAbsent}
				case kUnknown:
					ks[i] = kstate{st: kSettled}
				case kRefused:
					// the queued newcomer has been applied by now; it was turned away
					// for certain only if the old entry was still unexpired then
					if certainlyUnexpired(ks[i].v, o.RetT) {
						ks[i].st = kResident
					} else {
						ks[i] = kstate{st: kSettled}
					}
				}
			}
		case OpGet, OpGetTTL:
			s := &ks[o.Key]
			hit := o.OK
			var x *Val
			if o.K == OpGet {
				x = e.val(o.Val)
			}
			name := OpNames[o.K]
			probe(PrModelChecks)
			switch s.st {
			case kAbsent, kExpired, kResident:
				probe(PrModelDefinite) // the model demands a definite outcome (hit with this value / miss)
			case kPending, kRefused:
				probe(PrModelPending) // hit-with-this-value or miss are both allowed
			default:
				probe(PrModelUnknown) // the statement gives no guarantee here (only C01/C02/C04 apply)
			}
			switch s.st {
			case kAbsent, kExpired:
				if hit {
					e.mviolate("C06", "absent-hit", fmt.Sprintf("%s(key %d) at #%d hit (value %d) although the key was deleted/cleared/never written", name, o.Key, o.InvSeq, vid(x)), o.RetSeq)
				}
			case kPending:
				if hit && o.K == OpGet && x != s.v {
					e.mviolate("C06", "pending-wrong-value", fmt.Sprintf("Get(key %d) at #%d returned value %d while only value %d was pending", o.Key, o.InvSeq, vid(x), s.v.ID), o.RetSeq)
				}
				if hit && o.K == OpGetTTL {
					// the only value that can be there is the pending one: what GetTTL
					// reports must be that value's expiry
					checkTTL(o, s.v)
				}
			case kResident:
				v := s.v
				switch {
				case certainlyExpired(v, o.InvT):
					probe(PrExpiredServedCheck)
					if hit {
						e.mviolate("C07", "served-after-expiry", fmt.Sprintf("%s(key %d) invoked after value %d's ttl %v had elapsed still found it", name, o.Key, v.ID, time.Duration(v.TTL)), o.RetSeq)
					}
					*s = kstate{st: kExpired}
				case certainlyUnexpired(v, o.RetT):
					if !hit {
						prop, rule := "C06", "resident-miss"
						if v.TTL > 0 {
							prop, rule = "C07", "hidden-before-expiry"
						}
						e.violate(prop, rule, fmt.Sprintf("%s(key %d) at #%d missed although value %d (ttl %v) was resident, fits, and was not overwritten, deleted, cleared or expired", name, o.Key, o.InvSeq, v.ID, time.Duration(v.TTL)), o.RetSeq)
						// C06 also speaks about entries with a TTL staying retrievable until it elapses
						if v.TTL > 0 {
							e.mviolate("C06", "resident-miss", fmt.Sprintf("%s(key %d) at #%d missed although value %d was resident and its ttl had not elapsed", name, o.Key, o.InvSeq, v.ID), o.RetSeq)
						}
					} else if o.K == OpGet && x != v {
						e.mviolate("C06", "resident-wrong-value", fmt.Sprintf("Get(key %d) at #%d returned value %d, expected the resident value %d", o.Key, o.InvSeq, vid(x), v.ID), o.RetSeq)
					}
					if hit && o.K == OpGetTTL {
						checkTTL(o, v)
					}
				default:
					if hit && o.K == OpGet && x != v {
						e.mviolate("C06", "resident-wrong-value", fmt.Sprintf("Get(key %d) at #%d returned value %d, expected %d or a miss", o.Key, o.InvSeq, vid(x), v.ID), o.RetSeq)
					}
				}
			case kSettled:
				if o.K == OpGet {
					if hit && x != nil {
						*s = kstate{kResident, x}
					} else if !hit {
						// nothing retrievable; an expired entry may still linger in the
						// map until it is swept (it matters when ShouldUpdate refuses)
						*s = kstate{st: kExpired}
					}
				}
			}
		case OpIter:
			definite := true
			for i := range ks {
				switch ks[i].st {
				case kAbsent, kResident, kExpired:
				default:
					definite = false
				}
			}
			seen := map[int]int{}
			for _, id := range o.Items {
				seen[id]++
			}
			if !definite {
				continue
			}
			must, may := 0, 0
			for i := range ks {
				if ks[i].st != kResident {
					continue
				}
				v := ks[i].v
				switch {
				case certainlyExpired(v, o.InvT):
					if seen[v.ID] > 0 {
						e.mviolate("C07", "served-after-expiry", fmt.Sprintf("IterValues yielded value %d after its ttl had elapsed", v.ID), o.RetSeq)
					}
				case certainlyUnexpired(v, o.RetT):
					must++
					may++
					if seen[v.ID] == 0 && o.Arg < 0 {
						e.mviolate("C06", "iter-missing", fmt.Sprintf("IterValues at #%d did not yield resident value %d (key %d)", o.InvSeq, v.ID, v.Key), o.RetSeq)
						if v.TTL > 0 {
							e.mviolate("C07", "hidden-before-expiry", fmt.Sprintf("IterValues at #%d did not yield value %d (key %d, ttl %v) although it was resident and its ttl had not elapsed", o.InvSeq, v.ID, v.Key, time.Duration(v.TTL)), o.RetSeq)
						}
					}
				default:
					may++
				}
				delete(seen, v.ID)
			}
			for id := range seen {
				e.mviolate("C06", "iter-extra", fmt.Sprintf("IterValues at #%d yielded value %d which is not resident in the reference model", o.InvSeq, id), o.RetSeq)
				break
			}
			if o.Arg >= 0 {
				lo, hi := int(o.Arg)+1, int(o.Arg)+1
				if must < lo {
					lo = must
				}
				if may < hi {
					hi = may
				}
				if len(o.Items) < lo || len(o.Items) > hi {
					e.mviolate("C13", "iter-stop", fmt.Sprintf("IterValues asked to stop after %d callbacks made %d (resident: between %d and %d)", o.Arg+1, len(o.Items), must, may), o.RetSeq)
				}
			}
		}
	}
}

// duplicate enumeration within one IterValues call (any run)
func (e *Engine) checkIterDup(ops []*opRec) {
	for _, o := range ops {
		if o.K != OpIter {
			continue
		}
		seen := map[int]bool{}
		for _, id := range o.Items {
			if id >= 0 && seen[id] {
				e.violate("C13", "iter-duplicate", fmt.Sprintf("IterValues at #%d visited value %d twice", o.InvSeq, id), o.RetSeq)
			}
			seen[id] = true
		}
	}
}

// checkFreshAfterCleanClear runs in the task that just returned from a Clear
// during which no other call was in flight: the cache must be empty, its
// capacity and metrics reset (C15). White box only (no public call: those are
// yield sites in task context).
func (e *Engine) checkFreshAfterCleanClear(invSeq uint64) {
	// the snapshot takes and releases locks in task context: those releases
	// are not preemption points
	atomic.AddInt32(&core.NoUnlockYield, 1)
	snap := e.api.Snapshot()
	e.checkSketchFresh()
	atomic.AddInt32(&core.NoUnlockYield, -1)
	if len(snap.Entries) != 0 || len(snap.KeyCosts) != 0 || snap.Used != 0 {
		e.violate("C15", "clear-not-empty", fmt.Sprintf("Clear invoked at #%d returned (no other call in flight) leaving %d entries in the map, %d keys charged, used=%d", invSeq, len(snap.Entries), len(snap.KeyCosts), snap.Used), 0)
	}
	if snap.SetBufLen != 0 {
		e.violate("C15", "clear-buffer", fmt.Sprintf("Clear invoked at #%d returned (no other call in flight) with %d items in the write buffer", invSeq, snap.SetBufLen), 0)
	}
	for i, x := range snap.Metrics {
		if x != 0 {
			e.violate("C15", "clear-metrics", fmt.Sprintf("after Clear (no other call in flight) metric #%d is %d", i, x), 0)
		}
	}
	probe(PrFreshChecked)
}
