package cachesim

import (
	"math"
	"math/rand/v2"
	"strings"

	"verifsim/core"
)

// Operation kinds of client programs.
const (
	OpGet = iota
	OpSet
	OpDel
	OpGetTTL
	OpIter
	OpWait
	OpClear
	OpUpdateMaxCost // Arg: amount to add to the current MaxCost
	OpMaxCost
	OpRemaining
	OpMetrics
	OpYield   // Arg: number of extra scheduling points
	OpClose   // closer / epilogue only
	OpQuiesce // epilogue: ask the scheduler for a quiescent point + checks
	OpAdvance // epilogue: ask the scheduler to advance the clock by TTL ns
	OpSetRoom // Set with cost = current remaining room + Arg (white box)
	OpProbeClosed
	OpCheckEmpty // epilogue: scheduler-exclusive emptiness check (C13)
	OpCheckFresh // after Clear: scheduler-exclusive freshness check (C15)
	NumOps
)

var OpNames = []string{"Get", "Set", "Del", "GetTTL", "Iter", "Wait", "Clear", "UpdateMaxCost", "MaxCost",
	"Remaining", "Metrics", "Yield", "Close", "Quiesce", "Advance", "SetRoom", "ProbeClosed", "CheckEmpty", "CheckFresh"}

type Op struct {
	K    int   `json:"k"`             // kind
	Key  int   `json:"key,omitempty"` // logical key index
	Cost int64 `json:"cost,omitempty"`
	FnC  int64 `json:"fnc,omitempty"` // what Config.Cost returns for this value (used when Cost == 0)
	TTL  int64 `json:"ttl,omitempty"` // nanoseconds
	Arg  int64 `json:"arg,omitempty"`
}

// Key kinds.
const (
	KeyInt = iota
	KeyUint64
	KeyString
	KeyBytes
	KeyInt64
	KeyInt32
	KeyUint32
	KeyByte
	KeyUint
	KeyNamedInt    // type nInt int      (hashed through the reflect fallback of z.KeyToHash)
	KeyNamedInt64  // type nInt64 int64
	KeyNamedUint64 // type nUint64 uint64
	KeyNamedString // type nString string
	KeyNamedBytes  // type nBytes []byte
	NumKeyKinds
)

var KeyKindNames = []string{"int", "uint64", "string", "[]byte", "int64", "int32", "uint32", "byte", "uint",
	"named int", "named int64", "named uint64", "named string", "named []byte"}

// wideKind: integer kinds of 64 bits, for which key values far outside the
// 32-bit range (and negative ones) are legal and distinct.
func wideKind(k int) bool {
	switch k {
	case KeyInt, KeyUint64, KeyInt64, KeyUint, KeyNamedInt, KeyNamedInt64, KeyNamedUint64:
		return true
	}
	return false
}

func stringKind(k int) bool {
	return k == KeyString || k == KeyBytes || k == KeyNamedString || k == KeyNamedBytes
}

// Hasher kinds.
const (
	HashDefault = iota // z.KeyToHash
	HashCustom         // harness table through Config.KeyToHash (collision runs)
)

type KeySpec struct {
	Int      uint64 `json:"int"`            // value for integer kinds / id for string kinds
	Hash     uint64 `json:"hash,omitempty"` // custom hasher only
	Conflict uint64 `json:"conf,omitempty"`
	StrB     []byte `json:"strb,omitempty"` // string kinds: the key's bytes (nil: "k<Int>")
	Empty    bool   `json:"empty,omitempty"` // string kinds: the empty key (a separate flag: empty bytes do not survive the replay file)
}

// ShouldUpdate rules.
const (
	SUNil = iota
	SUAlways
	SURefuseOdd   // refuse when the new value's id is odd
	SURefuseLower // refuse when new.ID < prev.ID (never, ids grow) - acts as always
	SURefuseAll
	NumSU
)

type CacheCfg struct {
	NumCounters  int64     `json:"num_counters"`
	MaxCost      int64     `json:"max_cost"`
	InternItems  int64     `json:"intern_items,omitempty"` // MaxCost is raised by this many measured internal item costs (unless IgnoreIntern)
	BufferItems  int64     `json:"buffer_items"`
	SetBufSize   int       `json:"set_buf_size"`
	IgnoreIntern bool      `json:"ignore_internal"`
	Metrics      bool      `json:"metrics"`
	Callbacks    bool      `json:"callbacks"` // OnEvict/OnReject/OnExit set (always true unless race profile draws otherwise)
	CostFn       bool      `json:"cost_fn"`   // Config.Cost = func(v) v.Cost ; Sets pass 0
	ShouldUpdate int       `json:"should_update"`
	TickerSec    int64     `json:"ticker_sec"`
	BucketSecs   int64     `json:"bucket_secs,omitempty"` // width of an expiry bucket (0: built-in)
	KeyKind      int       `json:"key_kind"`
	Hasher       int       `json:"hasher"`
	Keys         []KeySpec `json:"keys"`
	MaxStripes   int       `json:"max_stripes"`
	ClockOffset  int64     `json:"clock_offset"` // ns the clock is advanced before NewCache
}

type SimCfg struct {
	Sched       core.SchedCfg `json:"sched"`
	PClock      int           `json:"p_clock"`   // per mille per step: advance the clock
	PQuiesce    int           `json:"p_quiesce"` // per 10000 per step: make a quiescent point
	PStripeLose int           `json:"p_lose"`    // per mille per Get: lose the stripe
	ClockKinds  []int         `json:"clock_kinds"`
	MaxSteps    int           `json:"max_steps"`
	PAuto       int           `json:"p_auto,omitempty"`       // per mille of the mechanically inserted sites enabled in this run
	AutoVisits  int           `json:"auto_visits,omitempty"` // an enabled site parks on its first AutoVisits visits
}

type Plan struct {
	Profile  string    `json:"profile"`
	Seed     uint64    `json:"seed"`
	Cfg      CacheCfg  `json:"cfg"`
	Sim      SimCfg    `json:"sim"`
	Clients  [][]Op    `json:"clients"`
	Closer   []Op      `json:"closer,omitempty"` // C15: runs when all clients are idle
	Epilogue []Op      `json:"epilogue"`
	Flags    PlanFlags `json:"flags"`
}

// PlanFlags tell the oracles which guarantees the run's shape supports.
type PlanFlags struct {
	SingleClient bool `json:"single_client,omitempty"` // C06 model applies
	AllFits      bool `json:"all_fits,omitempty"`      // capacity can never bind
	Injective    bool `json:"injective,omitempty"`     // hasher injective on the key set
	HashDep      bool `json:"hash_dep,omitempty"`      // key hashes vary per process (memhash): no decision may depend on them
	CostMonotone bool `json:"cost_monotone,omitempty"` // every key always carries the same cost, MaxCost only raised
	NoLowerMax   bool `json:"no_lower_max,omitempty"`
	Race         bool `json:"race,omitempty"` // race-detector flavour (C08): minimal harness, no white box
}

// Clock advance kinds.
const (
	ClkTiny   = iota // 1ns..1ms
	ClkExpiry        // to just before / at / just after the nearest pending expiration
	ClkBucket        // around multiples of a few seconds
	ClkTicker        // around the ticker period
	ClkLong          // 10s .. 10min
	ClkMilli         // 1ms .. 1s
	ClkPastExpiry    // into the round period (1 s .. 30 s units) that follows the one in which a drawn pending expiration lies - possibly far ahead, so that many periods pass without a sweep
	NumClk
)

var ttlMenu = []int64{1, 1000, 1e6, 5e8, 1e9, 2e9, 25e8, 4e9, 5e9, 6e9, 1e10, 11e9, 6e10}

// gen is a tiny helper around the plan PRNG.
type gen struct{ r *rand.Rand }

func (g gen) n(n int) int             { return g.r.IntN(n) }
func (g gen) p(pm int) bool           { return g.r.IntN(1000) < pm }
func (g gen) pick(xs []int) int       { return xs[g.r.IntN(len(xs))] }
func (g gen) pick64(xs []int64) int64 { return xs[g.r.IntN(len(xs))] }
func (g gen) rng(lo, hi int) int {
	if hi <= lo {
		return lo
	}
	return lo + g.r.IntN(hi-lo+1)
}

// weights of op kinds per profile
type mix struct {
	get, set, setTTL, del, getTTL, iter, wait, clear, upmax, reads, yield, setRoom int
}

type profile struct {
	name       string
	prop       string
	clientsLo  int
	clientsHi  int
	opsLo      int
	opsHi      int
	keysLo     int
	crowd      int // per mille of runs with 45..80 small keys resident and one newcomer that needs most of them evicted
	keysHi     int
	mix        mix
	capMode    []int // capacity modes to draw from
	bufSmall   int   // per mille: tiny set buffer
	collide    int   // per mille: collision run (custom hasher)
	strKeys    int   // per mille: string/[]byte keys
	pClockLo   int
	pClockHi   int
	ttlNeg     int // per mille of TTL sets with negative ttl
	shouldUpd  int // per mille runs with a refusing ShouldUpdate
	costFn     int // per mille runs using Config.Cost
	metricsPM  int
	closer     bool
	epilogue   string
	quiescePM  int // per 10000 per step
	costMono   int // per mille: cost-monotone run
	focusKeys  int // if >0, keys drawn mostly from the first focusKeys keys
	starveAppl int // per mille runs using the applier-starvation strategy
	maxSteps   int
	race       bool
	lowerMax   int // per mille of runs in which UpdateMaxCost may also lower MaxCost
	bucketWide int // per mille of runs with expiry buckets of 7..30 s (many ttls share a bucket)
}

// Capacity modes.
const (
	CapTiny    = iota // smaller than one item
	CapFew            // room for 2..6 items
	CapHalf           // about half of the key space
	CapAll            // everything fits with a wide margin
	CapExactly        // exactly the sum of key costs
	CapHuge           // MaxCost at the far end of int64 (the 'unlimited' idiom), costs of 2^59..2^63
	CapJustFits       // exactly the sum, over the keys, of the largest cost each key ever carries in this plan: everything fits, with no slack
)

const itemSizeGuess = 56 // only used to scale generated costs; oracles measure, never copy

var profiles = map[string]*profile{}

func init() {
	add := func(p *profile) { profiles[p.name] = p }
	// general mixed concurrent workload: provenance, exit discipline, ledger
	add(&profile{name: "mixed", clientsLo: 2, clientsHi: 6, opsLo: 5, opsHi: 30, keysLo: 1, keysHi: 8,
		mix:     mix{get: 30, set: 25, setTTL: 10, del: 10, getTTL: 3, iter: 2, wait: 4, clear: 2, upmax: 1, reads: 2, yield: 3},
		capMode: []int{CapTiny, CapFew, CapFew, CapHalf, CapAll}, bufSmall: 600, collide: 0, strKeys: 300,
		pClockLo: 0, pClockHi: 60, ttlNeg: 50, shouldUpd: 150, costFn: 200, metricsPM: 500, epilogue: "std", quiescePM: 30, starveAppl: 200, lowerMax: 300})
	// C01: key sets engineered to collide on the primary hash
	add(&profile{name: "collide", clientsLo: 2, clientsHi: 6, opsLo: 5, opsHi: 30, keysLo: 2, keysHi: 8,
		mix:     mix{get: 35, set: 28, setTTL: 8, del: 10, getTTL: 2, iter: 2, wait: 4, clear: 2, upmax: 1, yield: 3},
		capMode: []int{CapTiny, CapFew, CapFew, CapHalf, CapAll}, bufSmall: 600, collide: 1000, strKeys: 500,
		pClockLo: 0, pClockHi: 60, ttlNeg: 20, shouldUpd: 100, costFn: 200, metricsPM: 300, epilogue: "std", quiescePM: 0, starveAppl: 200})
	// C08: every listed call concurrently, under the race detector
	add(&profile{name: "race", clientsLo: 2, clientsHi: 8, opsLo: 3, opsHi: 25, keysLo: 1, keysHi: 8,
		mix:     mix{get: 25, set: 22, setTTL: 10, del: 8, getTTL: 5, iter: 5, wait: 6, clear: 5, upmax: 4, reads: 8, yield: 2},
		capMode: []int{CapTiny, CapFew, CapFew, CapHalf, CapAll}, bufSmall: 600, collide: 0, strKeys: 200,
		pClockLo: 0, pClockHi: 60, ttlNeg: 30, shouldUpd: 150, costFn: 200, metricsPM: 600, epilogue: "race", quiescePM: 0, starveAppl: 200, race: true, lowerMax: 500})
	// C02: overwrite / delete heavy on very few keys
	add(&profile{name: "overwrite", clientsLo: 2, clientsHi: 5, opsLo: 5, opsHi: 25, keysLo: 1, keysHi: 3,
		mix:     mix{get: 35, set: 35, setTTL: 8, del: 12, wait: 3, clear: 2, yield: 5, iter: 2},
		capMode: []int{CapFew, CapAll, CapAll, CapTiny}, bufSmall: 800, collide: 0, strKeys: 150,
		pClockLo: 0, pClockHi: 40, shouldUpd: 100, costFn: 100, metricsPM: 300, epilogue: "std", quiescePM: 20, starveAppl: 250})
	// C03/C09: capacity pressure
	add(&profile{name: "capacity", clientsLo: 1, clientsHi: 4, opsLo: 10, opsHi: 40, keysLo: 6, keysHi: 16,
		mix:     mix{get: 40, set: 35, setTTL: 3, del: 5, wait: 5, upmax: 2, reads: 3, yield: 2, setRoom: 12, clear: 1},
		capMode: []int{CapFew, CapFew, CapFew, CapHalf, CapHalf, CapTiny, CapTiny, CapExactly, CapExactly, CapHuge}, bufSmall: 300, collide: 0, strKeys: 100,
		pClockLo: 0, pClockHi: 20, costFn: 300, metricsPM: 500, epilogue: "std", quiescePM: 60, costMono: 500, starveAppl: 100, crowd: 60})
	// C05: deletes racing buffered inserts on a focus key
	add(&profile{name: "delete", clientsLo: 2, clientsHi: 4, opsLo: 6, opsHi: 25, keysLo: 2, keysHi: 5, focusKeys: 1,
		mix:     mix{get: 30, set: 30, setTTL: 8, del: 15, wait: 12, yield: 4, clear: 1, upmax: 3},
		capMode: []int{CapAll, CapAll, CapFew, CapFew}, bufSmall: 700, collide: 0, strKeys: 150,
		pClockLo: 0, pClockHi: 30, shouldUpd: 50, metricsPM: 300, epilogue: "std", quiescePM: 20, starveAppl: 400, lowerMax: 500})
	// C06/C07-early: one client, everything fits, lag = schedule
	add(&profile{name: "single", clientsLo: 1, clientsHi: 1, opsLo: 10, opsHi: 40, keysLo: 1, keysHi: 6,
		mix:     mix{get: 35, set: 22, setTTL: 12, del: 10, getTTL: 6, iter: 3, wait: 10, clear: 1, yield: 2},
		capMode: []int{CapAll, CapJustFits, CapJustFits}, bufSmall: 500, collide: 0, strKeys: 200,
		pClockLo: 0, pClockHi: 150, ttlNeg: 60, shouldUpd: 120, metricsPM: 500, epilogue: "std", quiescePM: 20, starveAppl: 300})
	// C07 early rule: one client (so the reference model applies), TTL heavy, very few keys, sweeps racing re-writes
	add(&profile{name: "singlettl", clientsLo: 1, clientsHi: 1, opsLo: 10, opsHi: 40, keysLo: 1, keysHi: 3,
		mix:     mix{get: 35, set: 8, setTTL: 30, del: 5, getTTL: 8, iter: 2, wait: 12, yield: 6},
		capMode: []int{CapAll, CapJustFits}, bufSmall: 400, collide: 0, strKeys: 100,
		pClockLo: 80, pClockHi: 350, ttlNeg: 20, shouldUpd: 150, metricsPM: 300, epilogue: "std", quiescePM: 10, starveAppl: 300})
	// C07/C14: TTL heavy, few keys, sweeps
	add(&profile{name: "ttl", clientsLo: 1, clientsHi: 3, opsLo: 5, opsHi: 25, keysLo: 1, keysHi: 4,
		mix:     mix{get: 30, set: 10, setTTL: 35, del: 8, getTTL: 8, iter: 3, wait: 4, yield: 6, clear: 1},
		capMode: []int{CapAll, CapAll, CapFew}, bufSmall: 400, collide: 0, strKeys: 100,
		pClockLo: 60, pClockHi: 300, ttlNeg: 30, shouldUpd: 120, metricsPM: 300, epilogue: "ttl", quiescePM: 20, starveAppl: 300})
	// C14 (and C02/C06): several callers re-writing the same one or two keys with
	// and without TTL, wide expiry buckets: the caller-side update path racing
	// itself and the sweep
	add(&profile{name: "rewrite", clientsLo: 2, clientsHi: 3, opsLo: 4, opsHi: 14, keysLo: 1, keysHi: 2,
		mix:     mix{get: 10, set: 25, setTTL: 40, del: 3, getTTL: 3, wait: 5, yield: 8},
		capMode: []int{CapAll}, bufSmall: 300, collide: 0, strKeys: 50,
		pClockLo: 40, pClockHi: 250, shouldUpd: 50, metricsPM: 200, epilogue: "ttl", quiescePM: 20, starveAppl: 200, bucketWide: 600})
	// C15: close / clear
	add(&profile{name: "close", clientsLo: 1, clientsHi: 4, opsLo: 3, opsHi: 20, keysLo: 1, keysHi: 6,
		mix:     mix{get: 20, set: 30, setTTL: 10, del: 10, wait: 10, clear: 8, yield: 3, iter: 2},
		capMode: []int{CapFew, CapAll, CapTiny}, bufSmall: 600, collide: 0, strKeys: 200,
		pClockLo: 0, pClockHi: 40, ttlNeg: 20, shouldUpd: 250, costFn: 100, metricsPM: 600, closer: true, epilogue: "close", quiescePM: 10, starveAppl: 300})
	// C17: metrics
	add(&profile{name: "metrics", clientsLo: 1, clientsHi: 4, opsLo: 8, opsHi: 35, keysLo: 2, keysHi: 10,
		mix:     mix{get: 40, set: 30, setTTL: 8, del: 8, getTTL: 2, wait: 4, clear: 1, reads: 6, yield: 2, upmax: 1},
		capMode: []int{CapFew, CapHalf, CapAll, CapTiny}, bufSmall: 600, collide: 0, strKeys: 150,
		pClockLo: 0, pClockHi: 60, shouldUpd: 50, costFn: 200, metricsPM: 1000, epilogue: "std", quiescePM: 80, starveAppl: 250})
	// C13: agreement at quiescent points, emptying epilogues
	add(&profile{name: "agree", clientsLo: 2, clientsHi: 5, opsLo: 5, opsHi: 30, keysLo: 2, keysHi: 10,
		mix:     mix{get: 20, set: 30, setTTL: 15, del: 12, iter: 3, wait: 4, clear: 2, yield: 3, upmax: 1},
		capMode: []int{CapFew, CapHalf, CapAll, CapTiny}, bufSmall: 600, collide: 0, strKeys: 150,
		pClockLo: 0, pClockHi: 100, shouldUpd: 100, costFn: 150, metricsPM: 400, epilogue: "empty", quiescePM: 80, starveAppl: 250})
}

// GenPlan draws a complete plan for one run of a profile.
func GenPlan(profName string, seed uint64) *Plan {
	// "<profile>+deep" (thorough tier): the same generator with deeper bounds -
	// programs up to four times as long, twice the key space, more clients - so
	// that states which need a long history (ageing resets of the sketch, many
	// resident keys, long buffered queues) are reached too
	base, deep := strings.CutSuffix(profName, "+deep")
	pr := profiles[base]
	if pr == nil {
		panic("unknown profile " + profName)
	}
	if deep {
		cp := *pr
		cp.opsLo *= 2
		cp.opsHi *= 4
		cp.keysHi = min(cp.keysHi*2, 32)
		if cp.clientsHi > 1 {
			cp.clientsHi = min(cp.clientsHi+2, 8)
		}
		cp.maxSteps = 200000
		pr = &cp
	}
	g := gen{core.NewRand(seed, 1)}
	p := &Plan{Profile: profName, Seed: seed}
	c := &p.Cfg

	nkeys := g.rng(pr.keysLo, pr.keysHi)
	// "arbitrary non-negative costs": the ratio between one newcomer's cost and
	// the residents' costs has a far end too - a crowd of small keys and one
	// admission that needs dozens of them evicted (no draw unless the profile asks)
	crowd := pr.crowd > 0 && g.p(pr.crowd)
	if crowd {
		nkeys = g.rng(45, 80)
	}
	c.KeyKind = KeyInt
	if g.p(pr.strKeys) {
		c.KeyKind = g.pick([]int{KeyString, KeyBytes, KeyString, KeyBytes, KeyNamedString, KeyNamedBytes})
	} else if g.p(500) {
		c.KeyKind = g.pick([]int{KeyUint64, KeyUint64, KeyInt64, KeyInt32, KeyUint32, KeyByte, KeyUint, KeyNamedInt, KeyNamedInt, KeyNamedInt64, KeyNamedUint64})
	}
	p.Flags.Injective = true
	if g.p(pr.collide) && nkeys >= 2 {
		c.Hasher = HashCustom
		if !stringKind(c.KeyKind) && g.p(500) {
			c.KeyKind = g.pick([]int{KeyString, KeyNamedString, KeyBytes})
		}
		// groups of 2..4 keys share a primary hash
		base := uint64(g.rng(1, 1<<20))
		for i := 0; i < nkeys; {
			grp := g.rng(1, 4)
			h := base + uint64(i)*257 + uint64(g.n(3))*256
			for j := 0; j < grp && i < nkeys; j++ {
				conf := uint64(1000 + i*7 + g.n(5))
				if g.p(120) {
					conf = 0 // no conflict hash: the guarantee does not cover this key
				}
				c.Keys = append(c.Keys, KeySpec{Int: uint64(i + 1), Hash: h, Conflict: conf})
				if j > 0 {
					p.Flags.Injective = false
				}
				i++
			}
		}
	} else {
		c.Hasher = HashDefault
		for i := 0; i < nkeys; i++ {
			v := uint64(i + 1)
			if g.p(250) {
				// same shard as an earlier key
				v = uint64(g.n(i+1)+1) + 256*uint64(g.rng(1, 3))
			}
			dup := false
			for _, k := range c.Keys {
				if k.Int == v {
					dup = true
				}
			}
			if dup {
				v = uint64(i+1) + 256*7
			}
			c.Keys = append(c.Keys, KeySpec{Int: v})
		}
	}

	if c.Hasher == HashDefault && wideKind(c.KeyKind) && g.p(350) {
		// key values that differ only in their high bits (or sign): the low 32
		// bits - and with them the shard - coincide for several keys
		his := []int64{1 << 31, 1 << 32, 1 << 33, 1 << 40, -(1 << 32), -(1 << 31), -(1 << 62)}
		for i := range c.Keys {
			// keys come in pairs with identical low 31 bits: they would alias if
			// the high bits (or the sign) were dropped anywhere
			lo := uint64(i/2+1) + uint64(i/2)<<8
			hi := int64(0)
			if i%2 == 1 {
				hi = g.pick64(his)
			} else if g.p(300) {
				hi = 1 << 36
			}
			c.Keys[i].Int = uint64(hi) + lo
		}
	}
	if stringKind(c.KeyKind) && g.p(450) {
		// "every key set" for the string kinds: families of distinct keys that a
		// careless hash or comparison would confuse - texts that differ only in
		// trailing NUL bytes or in length, share a prefix up to and across the
		// 8/16/32-byte marks, differ in one late byte of a long text, or in case
		var fam [][]byte
		switch g.n(6) {
		case 5: // very long texts of equal length that differ in one interior byte
			base := make([]byte, g.pick([]int{300, 1025, 4097, 8200, 20000}))
			for i := range base {
				base[i] = byte('A' + i%53)
			}
			for i := 0; i < 10; i++ {
				t := append([]byte{}, base...)
				pos := []int{1, len(t) / 4, len(t)/2 - 1, len(t) / 2, len(t)/2 + 1, 3 * len(t) / 4, len(t) - 2, 2049, 2048, 7}[i] % len(t)
				t[pos] ^= byte(0x20 + i)
				fam = append(fam, t)
			}
		case 0: // zero-extension aliases, short
			stem := []byte{byte(g.rng(1, 250))}
			if g.p(500) {
				stem = []byte("u" + string(rune('0'+g.n(10))))
			}
			fam = [][]byte{{0}, {0, 0}, {0, 0, 0}, stem, append(append([]byte{}, stem...), 0), append(append([]byte{}, stem...), 0, 0), append(append([]byte{}, stem...), 0, 0, 0, 0, 0, 0)}
		case 1: // prefixes across the word marks
			base := []byte("abcdefghijklmnopqrstuvwxyz0123456789ABCDEFGH")
			for _, n := range []int{7, 8, 9, 15, 16, 17, 31, 32, 33, 40} {
				fam = append(fam, append([]byte{}, base[:n]...))
			}
		case 2: // long texts that differ in one late byte
			base := make([]byte, g.pick([]int{24, 64, 100, 257}))
			for i := range base {
				base[i] = byte('a' + i%23)
			}
			for i := 0; i < 10; i++ {
				t := append([]byte{}, base...)
				t[len(t)-1-i%3] ^= byte(1 + i)
				fam = append(fam, t)
			}
		case 3: // case, high bit, embedded NUL
			fam = [][]byte{[]byte("Key"), []byte("key"), []byte("KEY"), []byte("ke\x00y"), []byte("key\x00"), {0xeb, 'e', 'y'}, {'k', 0xe5, 'y'}, []byte("key "), []byte(" key")}
		default: // fixed-width binary ids of different widths
			v := uint64(g.rng(1, 1<<20))
			for _, w := range []int{1, 2, 3, 4, 5, 8, 9, 16} {
				t := make([]byte, w)
				for i := 0; i < w && i < 8; i++ {
					t[i] = byte(v >> (8 * i))
				}
				fam = append(fam, t)
			}
		}
		// distinct texts only, in a drawn order
		seen := map[string]bool{}
		var uniq [][]byte
		for _, t := range fam {
			if !seen[string(t)] {
				seen[string(t)] = true
				uniq = append(uniq, t)
			}
		}
		g.r.Shuffle(len(uniq), func(i, j int) { uniq[i], uniq[j] = uniq[j], uniq[i] })
		for i := range c.Keys {
			if i < len(uniq) {
				c.Keys[i].StrB = uniq[i]
			}
		}
	}
	if c.KeyKind == KeyByte {
		// byte keys: 256 values, one shard each
		for i := range c.Keys {
			c.Keys[i].Int = uint64(i*13+1) % 251
		}
	}
	if stringKind(c.KeyKind) && g.p(120) {
		// the shortest key there is: "" / an empty []byte
		c.Keys[g.n(len(c.Keys))].Empty = true
	}
	if c.Hasher == HashDefault && !stringKind(c.KeyKind) && g.p(120) {
		// the ends of the key type's range: the key whose hash is 0 (the zero
		// value of every integer kind) and the all-ones key
		c.Keys[0].Int = 0
		if len(c.Keys) > 2 && wideKind(c.KeyKind) && g.p(500) {
			dup := false
			for _, k := range c.Keys {
				dup = dup || k.Int == math.MaxUint64
			}
			if !dup {
				c.Keys[1].Int = math.MaxUint64
			}
		}
	}
	c.NumCounters = int64(g.pick([]int{2, 4, 16, 64, 256, 1024}))
	c.BufferItems = int64(g.pick([]int{1, 1, 2, 3, 4, 8, 64}))
	if g.p(pr.bufSmall) {
		c.SetBufSize = g.pick([]int{1, 1, 2, 2, 3, 4, 8})
	} else {
		c.SetBufSize = g.pick([]int{16, 64, 64, 32 * 1024})
	}
	c.IgnoreIntern = g.p(400)
	c.Metrics = g.p(pr.metricsPM)
	c.Callbacks = true
	c.CostFn = g.p(pr.costFn)
	if g.p(pr.shouldUpd) {
		c.ShouldUpdate = g.pick([]int{SURefuseOdd, SURefuseAll, SUAlways})
	} else if g.p(300) {
		c.ShouldUpdate = SUAlways
	}
	c.TickerSec = int64(g.pick([]int{0, 1, 1, 2, 3, 5, 10, 20}))
	c.MaxStripes = g.rng(1, 3)
	if g.p(pr.bucketWide) {
		c.BucketSecs = int64(g.pick([]int{7, 10, 30}))
	} else if g.p(400) {
		c.BucketSecs = int64(g.pick([]int{1, 2, 3, 7, 10}))
	}
	c.ClockOffset = int64(g.n(1<<30)) * int64(g.rng(1, 40))

	// costs: each key has a base cost; cost-monotone runs always use it
	mono := g.p(pr.costMono) && !crowd
	baseCost := make([]int64, nkeys)
	unit := int64(g.pick([]int{1, 1, 3, 10, 100}))
	var sum int64
	for i := range baseCost {
		baseCost[i] = unit * int64(g.rng(1, 6))
		if g.p(100) {
			baseCost[i] = 0
		}
		sum += baseCost[i]
	}
	intern := int64(itemSizeGuess)
	if c.IgnoreIntern {
		intern = 0
	}
	per := sum/int64(nkeys) + intern
	if per == 0 {
		per = 1
	}
	capMode := g.pick(pr.capMode)
	if crowd {
		capMode = g.pick([]int{CapExactly, CapExactly, CapHalf})
	}
	hashDependent := c.Hasher == HashDefault && stringKind(c.KeyKind)
	if hashDependent {
		// runtime.memhash is seeded per process: keep every decision independent of hash values
		capMode = CapAll
		p.Flags.HashDep = true
		crowd = false // everything is promised to fit in these runs: no oversized newcomer
	}
	switch capMode {
	case CapTiny:
		c.MaxCost = int64(g.rng(1, int(per)))
	case CapFew:
		c.MaxCost = per*int64(g.rng(2, 6)) + int64(g.n(int(per)))
	case CapHalf:
		c.MaxCost = (sum+intern*int64(nkeys))/2 + 1
	case CapExactly:
		c.MaxCost = sum + intern*int64(nkeys)
		if c.MaxCost == 0 {
			c.MaxCost = 1
		}
	case CapAll:
		c.MaxCost = 1 << 40
		p.Flags.AllFits = true
	case CapJustFits:
		c.MaxCost = 1 << 40 // replaced below, once the programs are known
		p.Flags.AllFits = true
	case CapHuge:
		// every sum the cache forms can wrap around here; the true totals still
		// have to stay at or below MaxCost
		c.MaxCost = g.pick64([]int64{math.MaxInt64, math.MaxInt64 - 1, math.MaxInt64 - 57, 3 << 61, 1<<62 + 7})
		for i := range baseCost {
			baseCost[i] = (1 << 59) * int64(g.rng(1, 12))
		}
	}
	if c.CostFn && !mono {
		// with a Cost function explicit costs are still used for part of the Sets
	}
	p.Flags.CostMonotone = mono
	p.Flags.NoLowerMax = true
	lowering := !mono && !hashDependent && g.p(pr.lowerMax)
	if lowering {
		p.Flags.NoLowerMax = false
		p.Flags.AllFits = false // capacity can bind once MaxCost has been lowered
	}

	nclients := g.rng(pr.clientsLo, pr.clientsHi)
	if pr.race {
		p.Flags.Race = true
		if g.p(80) {
			nclients = g.rng(16, 64) // a slice of runs with many short tasks
		}
		c.Callbacks = g.p(700)
	}
	p.Flags.SingleClient = nclients == 1 && !pr.closer
	m := pr.mix
	weights := []int{m.get, m.set, m.setTTL, m.del, m.getTTL, m.iter, m.wait, m.clear, m.upmax, m.reads, m.yield, m.setRoom}
	total := 0
	for _, w := range weights {
		total += w
	}
	drawKey := func() int {
		if pr.focusKeys > 0 && g.p(700) {
			return g.n(min(pr.focusKeys, nkeys))
		}
		return g.n(nkeys)
	}
	drawCost := func(k int) int64 {
		if mono {
			if c.CostFn && g.p(500) {
				return 0 // Cost callback supplies the base cost
			}
			return baseCost[k]
		}
		if p.Flags.AllFits {
			switch g.n(4) {
			case 0:
				return 0
			case 1:
				return baseCost[k] * 2
			}
			return baseCost[k]
		}
		if g.p(15) {
			// the far end of "arbitrary non-negative costs"
			return g.pick64([]int64{math.MaxInt64, math.MaxInt64 - 55, math.MaxInt64 - 56, math.MaxInt64 - 57, 1 << 62})
		}
		switch g.n(10) {
		case 0:
			return 0
		case 1:
			return c.MaxCost // exactly MaxCost
		case 2:
			if c.MaxCost < math.MaxInt64 {
				return c.MaxCost + 1
			}
		case 3:
			if baseCost[k] < 1<<61 {
				return baseCost[k] * 2
			}
		case 4:
			if c.MaxCost > intern+1 && c.MaxCost < 1<<30 {
				return c.MaxCost - intern + int64(g.rng(-1, 1))
			}
		}
		return baseCost[k]
	}
	for ci := 0; ci < nclients; ci++ {
		nops := g.rng(pr.opsLo, pr.opsHi)
		if nclients > 8 {
			nops = g.rng(1, 4)
		}
		var prog []Op
		for len(prog) < nops {
			x := g.n(total)
			kind := 0
			for i, w := range weights {
				if x < w {
					kind = i
					break
				}
				x -= w
			}
			switch kind {
			case 0:
				prog = append(prog, Op{K: OpGet, Key: drawKey()})
			case 1:
				k := drawKey()
				prog = append(prog, Op{K: OpSet, Key: k, Cost: drawCost(k), FnC: baseCost[k]})
			case 2:
				k := drawKey()
				ttl := g.pick64(ttlMenu)
				if g.p(300) {
					ttl += int64(g.rng(-3, 3)) * int64(g.pick([]int{1, 1000, 1e6, 1e8}))
					if ttl == 0 {
						ttl = 1
					}
				}
				if g.p(pr.ttlNeg) {
					ttl = -ttl
				} else if g.p(25) {
					// "every ttl value": the far end (centuries, the 'forever' idiom)
					ttl = g.pick64([]int64{math.MaxInt64, math.MaxInt64 - 1, 250 * 365 * 24 * 3600 * 1e9, 1 << 62})
				}
				prog = append(prog, Op{K: OpSet, Key: k, Cost: drawCost(k), FnC: baseCost[k], TTL: ttl})
			case 3:
				prog = append(prog, Op{K: OpDel, Key: drawKey()})
			case 4:
				prog = append(prog, Op{K: OpGetTTL, Key: drawKey()})
			case 5:
				arg := int64(g.rng(-1, 4))
				if hashDependent {
					arg = -1
				}
				prog = append(prog, Op{K: OpIter, Arg: arg})
			case 6:
				prog = append(prog, Op{K: OpWait})
			case 7:
				prog = append(prog, Op{K: OpClear})
			case 8:
				arg := int64(g.rng(0, int(per)*2))
				if lowering && g.p(600) {
					// lower it: by a delta, or to an absolute small value (encoded as
					// a large negative delta: the engine clamps the target at 1)
					if g.p(500) {
						arg = -int64(g.rng(1, int(per)*3))
					} else {
						arg = -(1 << 50) + g.pick64([]int64{1, 10, 55, 56, 57, 100})
					}
				}
				prog = append(prog, Op{K: OpUpdateMaxCost, Arg: arg})
			case 9:
				prog = append(prog, Op{K: g.pick([]int{OpMaxCost, OpRemaining, OpMetrics})})
			case 10:
				prog = append(prog, Op{K: OpYield, Arg: int64(g.rng(1, 6))})
			case 11:
				k := drawKey()
				arg := int64(g.rng(-2, 2))
				if g.p(500) {
					arg = 0 // exactly fills the remaining room
				}
				if g.p(400) {
					prog = append(prog, Op{K: OpWait}) // let the accounting settle first
				}
				prog = append(prog, Op{K: OpSetRoom, Key: k, Arg: arg, FnC: baseCost[k]})
				if g.p(500) {
					prog = append(prog, Op{K: OpWait})
				}
			}
		}
		p.Clients = append(p.Clients, prog)
	}
	if crowd {
		// prologue of client 0: every key but the last few made resident at its
		// base cost, drained, then one absent key written with a cost near (or at a
		// fraction of) MaxCost, drained
		var pro []Op
		absent := g.rng(1, 4)
		for k := 0; k < nkeys-absent; k++ {
			pro = append(pro, Op{K: OpSet, Key: k, Cost: baseCost[k], FnC: baseCost[k]})
			if k%16 == 15 {
				pro = append(pro, Op{K: OpWait})
			}
		}
		pro = append(pro, Op{K: OpWait})
		big := g.pick64([]int64{c.MaxCost - intern, c.MaxCost - 2*intern, c.MaxCost / 2, c.MaxCost * 3 / 4, c.MaxCost})
		if big < 1 {
			big = 1
		}
		nk := nkeys - 1 - g.n(absent)
		pro = append(pro, Op{K: OpSet, Key: nk, Cost: big, FnC: baseCost[nk]}, Op{K: OpWait})
		p.Clients[0] = append(pro, p.Clients[0]...)
	}
	if nclients == 1 && !mono && !p.Flags.AllFits && g.p(600) {
		// "No overwrite raises a resident key's cost" (the histories in which C03
		// promises RemainingCost() >= 0), without tying every key to one cost: a
		// Set may give a key any cost when the key is known to be absent (never
		// written, or deleted and drained by a Wait, or cleared), and otherwise
		// no more than the smallest cost it was given since then. Mirrors
		// Engine.noteWrite; costs still vary, zero costs included.
		type tr struct {
			written, del bool
			min          int64
		}
		ks := make([]tr, nkeys)
		prog := p.Clients[0]
		for oi := range prog {
			o := &prog[oi]
			switch o.K {
			case OpSet, OpSetRoom:
				t := &ks[o.Key]
				if t.written {
					eff := o.Cost
					if eff == 0 && c.CostFn {
						eff = o.FnC
					}
					if o.K == OpSetRoom || eff > t.min {
						// keep the key's smallest cost (through Config.Cost when that is what it returns)
						*o = Op{K: OpSet, Key: o.Key, Cost: t.min, FnC: o.FnC, TTL: o.TTL}
						if c.CostFn && t.min == o.FnC {
							o.Cost = 0
						} else if c.CostFn && t.min == 0 {
							o.Cost, o.FnC = 0, 0
						}
						eff = t.min
					}
					if eff < t.min {
						t.min = eff
					}
				} else if o.K == OpSet {
					eff := o.Cost
					if eff == 0 && c.CostFn {
						eff = o.FnC
					}
					t.min = eff
				} else {
					t.min = 0 // room-relative cost, unknown here: anything later counts as a raise
				}
				t.written, t.del = true, false
			case OpDel:
				ks[o.Key].del = true
			case OpWait:
				for i := range ks {
					if ks[i].del {
						ks[i] = tr{}
					}
				}
			case OpClear:
				for i := range ks {
					ks[i] = tr{}
				}
			}
		}
	}
	if mono || p.Flags.AllFits {
		// cost-monotone and everything-fits runs must not contain room-relative costs
		for ci := range p.Clients {
			for oi := range p.Clients[ci] {
				if p.Clients[ci][oi].K == OpSetRoom {
					k := p.Clients[ci][oi].Key
					p.Clients[ci][oi] = Op{K: OpSet, Key: k, Cost: baseCost[k], FnC: baseCost[k]}
				}
			}
		}
	}

	// scheduling
	s := &p.Sim
	s.Sched.Strategy = g.pick([]int{core.StratUniform, core.StratSticky, core.StratSticky, core.StratPCT, core.StratStarve})
	if g.p(pr.starveAppl) {
		s.Sched.Strategy = core.StratStarve
	}
	s.Sched.StickyP = g.pick([]int{500, 800, 950})
	s.Sched.PCTDepth = g.rng(1, 3)
	s.Sched.PCTSteps = 40 * nclients * 10
	switch g.n(4) {
	case 0:
		s.Sched.StarveOrd = 900
	case 1:
		s.Sched.StarveOrd = g.n(nclients)
	default:
		s.Sched.StarveOrd = 1000
	}
	s.Sched.StarveLen = g.pick([]int{5, 20, 60, 200})
	s.Sched.StarveGap = g.pick([]int{5, 20, 60})
	s.PClock = g.rng(pr.pClockLo, pr.pClockHi)
	if g.p(300) {
		s.PClock = 0
	}
	s.PQuiesce = pr.quiescePM
	if g.p(300) {
		s.PQuiesce = 0
	}
	s.PStripeLose = g.pick([]int{0, 0, 50, 200})
	for k := 0; k < NumClk; k++ {
		if g.p(600) {
			s.ClockKinds = append(s.ClockKinds, k)
		}
	}
	if len(s.ClockKinds) == 0 {
		s.ClockKinds = []int{ClkTiny, ClkExpiry}
	}
	s.PAuto = g.pick([]int{0, 0, 50, 200, 500, 1000})
	s.AutoVisits = g.pick([]int{2, 8, 40})
	if hashDependent {
		// which shard a key lives in varies per process here: a preemption inside
		// a loop over the shards would make the run depend on it
		s.PAuto = 0
	}
	s.MaxSteps = 60000
	if nclients > 8 {
		s.MaxSteps = 200000
	}
	if pr.maxSteps > 0 {
		s.MaxSteps = pr.maxSteps
	}

	// closer (C15): Close issued while the other clients are idle
	if pr.closer && g.p(700) {
		p.Closer = []Op{{K: OpClose}}
		if g.p(300) {
			p.Closer = []Op{{K: OpClear}, {K: OpClose}}
		}
	}

	// epilogue
	switch pr.epilogue {
	case "race":
		p.Epilogue = []Op{{K: OpWait}, {K: OpClose}}
	case "ttl":
		p.Epilogue = []Op{{K: OpWait}, {K: OpQuiesce}}
		if c.BucketSecs > 0 && g.p(600) {
			// steady clock first: steps of half a bucket width for twice the bucket
			// width plus twice the ticker period and a margin, a write + Wait at
			// each. What had expired before must be reclaimed by the end of it
			// (the growing steps below would hide a bucket that is only ever
			// picked up by a sweep spanning many periods).
			tick := c.TickerSec
			if tick == 0 {
				tick = c.BucketSecs // the default ticker period is the bucket width
			}
			half := c.BucketSecs * 5e8
			total := (2*c.BucketSecs + 2*tick + 2) * 1e9
			if total/40 > half {
				// keep the phase to about 40 steps; a step never exceeds one bucket width
				half = min(total/40, c.BucketSecs*1e9)
			}
			p.Epilogue = append(p.Epilogue, Op{K: OpQuiesce, Arg: 3})
			for t, i := int64(0), 0; t < total; t, i = t+half, i+1 {
				p.Epilogue = append(p.Epilogue, Op{K: OpAdvance, TTL: half}, Op{K: OpSet, Key: nkeys, Cost: 1, Arg: int64(100 + i)}, Op{K: OpWait})
			}
			p.Epilogue = append(p.Epilogue, Op{K: OpQuiesce, Arg: 4})
		}
		// advance in growing steps to well beyond the last expiration; a write+Wait per step
		steps := []int64{1e9, 2e9, 4e9, 5e9, 6e9, 1e10, 2e10, 6e10, 6e10, 12e10, 6e11, 36e11}
		for i, d := range steps {
			p.Epilogue = append(p.Epilogue, Op{K: OpAdvance, TTL: d})
			p.Epilogue = append(p.Epilogue, Op{K: OpSet, Key: nkeys /* epilogue-only key */, Cost: 1, Arg: int64(i)})
			p.Epilogue = append(p.Epilogue, Op{K: OpWait})
		}
		p.Epilogue = append(p.Epilogue, Op{K: OpQuiesce, Arg: 1}, Op{K: OpClose}, Op{K: OpProbeClosed})
	case "empty":
		p.Epilogue = []Op{{K: OpWait}, {K: OpQuiesce}}
		switch g.n(3) {
		case 0:
			for k := 0; k < nkeys; k++ {
				p.Epilogue = append(p.Epilogue, Op{K: OpDel, Key: k})
			}
			p.Epilogue = append(p.Epilogue, Op{K: OpWait}, Op{K: OpCheckEmpty})
		case 1:
			p.Epilogue = append(p.Epilogue, Op{K: OpClear}, Op{K: OpCheckEmpty})
		case 2:
			// make every key expire: rewrite all with a TTL, then advance and keep writing
			for k := 0; k < nkeys; k++ {
				p.Epilogue = append(p.Epilogue, Op{K: OpDel, Key: k})
			}
			p.Epilogue = append(p.Epilogue, Op{K: OpWait})
			for k := 0; k < nkeys; k++ {
				p.Epilogue = append(p.Epilogue, Op{K: OpSet, Key: k, Cost: 1, TTL: g.pick64(ttlMenu)})
			}
			p.Epilogue = append(p.Epilogue, Op{K: OpWait})
			for _, d := range []int64{1e9, 5e9, 1e10, 6e10, 6e10, 6e11} {
				p.Epilogue = append(p.Epilogue, Op{K: OpAdvance, TTL: d}, Op{K: OpDel, Key: nkeys}, Op{K: OpWait})
			}
			p.Epilogue = append(p.Epilogue, Op{K: OpCheckEmpty})
		}
		p.Epilogue = append(p.Epilogue, Op{K: OpClose}, Op{K: OpProbeClosed})
	case "close":
		p.Epilogue = []Op{{K: OpWait}, {K: OpQuiesce}, {K: OpClear}, {K: OpCheckFresh}}
		// a short program on the cleared cache: must behave as new
		for i, n := 0, g.rng(2, 8); i < n; i++ {
			k := g.n(nkeys)
			switch x := g.n(10); {
			case x < 6:
				p.Epilogue = append(p.Epilogue, Op{K: OpSet, Key: k, Cost: 1}, Op{K: OpWait}, Op{K: OpGet, Key: k})
			case x < 7:
				p.Epilogue = append(p.Epilogue, Op{K: OpSet, Key: k, Cost: 1}, Op{K: OpGet, Key: k}) // overwrite (or pending insert) without Wait
			case x < 8:
				p.Epilogue = append(p.Epilogue, Op{K: OpSet, Key: k, Cost: 1, TTL: g.pick64(ttlMenu)}, Op{K: OpWait}, Op{K: OpGetTTL, Key: k}, Op{K: OpGet, Key: k})
			case x < 9:
				p.Epilogue = append(p.Epilogue, Op{K: OpDel, Key: k}, Op{K: OpWait}, Op{K: OpGet, Key: k})
			default:
				p.Epilogue = append(p.Epilogue, Op{K: OpWait}, Op{K: OpIter, Arg: -1})
			}
		}
		if g.p(500) {
			p.Epilogue = append(p.Epilogue, Op{K: OpClear}, Op{K: OpCheckFresh})
		}
		if g.p(500) {
			// a cleared cache expires and sweeps TTL entries as a new one does
			for k := 0; k < min(nkeys, 2); k++ {
				p.Epilogue = append(p.Epilogue, Op{K: OpSet, Key: k, Cost: 1, TTL: g.pick64(ttlMenu)})
			}
			p.Epilogue = append(p.Epilogue, Op{K: OpWait})
			for _, d := range []int64{2e9, 1e10, 6e10, 6e10, 6e11, 36e11} {
				p.Epilogue = append(p.Epilogue, Op{K: OpAdvance, TTL: d}, Op{K: OpSet, Key: nkeys, Cost: 1}, Op{K: OpWait})
			}
			p.Epilogue = append(p.Epilogue, Op{K: OpQuiesce, Arg: 2})
		}
		p.Epilogue = append(p.Epilogue, Op{K: OpClose}, Op{K: OpProbeClosed})
		if g.p(500) {
			p.Epilogue = append(p.Epilogue, Op{K: OpClose}, Op{K: OpClear}, Op{K: OpProbeClosed})
		}
	default:
		p.Epilogue = []Op{{K: OpWait}, {K: OpQuiesce}, {K: OpClose}, {K: OpProbeClosed}}
	}
	if capMode == CapJustFits {
		// Everything fits, but only just: MaxCost is the sum over the keys of the
		// largest cost the key carries anywhere in this plan (plus one internal
		// item cost per key, added by the engine from its own measurement). On a
		// correct cache no admission ever needs an eviction; any upward drift of
		// the accounting makes one necessary and shows as a lost entry.
		maxc := make([]int64, nkeys+1)
		scan := func(ops []Op) {
			for _, o := range ops {
				if o.K != OpSet {
					continue
				}
				cst := o.Cost
				if cst == 0 && c.CostFn {
					cst = o.FnC
				}
				if cst > maxc[o.Key] {
					maxc[o.Key] = cst
				}
			}
		}
		for _, prog := range p.Clients {
			scan(prog)
		}
		scan(p.Closer)
		scan(p.Epilogue)
		var tot int64
		for _, m := range maxc {
			tot += m
		}
		tot += int64(g.pick([]int{0, 0, 0, 1, 7}))
		if tot == 0 {
			tot = 1
		}
		c.MaxCost = tot
		c.InternItems = int64(nkeys + 1)
	}
	// the epilogue-only key
	epiKey := uint64(5000 + nkeys)
	if c.KeyKind == KeyByte {
		epiKey = 253
	}
	c.Keys = append(c.Keys, KeySpec{Int: epiKey, Hash: 0xfeed0000 + uint64(nkeys), Conflict: 77})
	return p
}
