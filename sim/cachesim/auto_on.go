//go:build autoyield

package cachesim

import "github.com/dgraph-io/ristretto/v2"

// autoSites is the number of preemption points cmd/autoyield inserted into
// the copy of the repository this binary was built from.
const autoSites = ristretto.VerifAutoSites
