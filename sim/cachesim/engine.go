package cachesim

import (
	"strconv"
	"os"
	"fmt"
	"math"
	"sort"
	"sync"
	"sync/atomic"
	"time"

	"github.com/dgraph-io/ristretto/v2"

	"verifsim/core"
)

// Harness yield sites (repo sites are < ristretto.VerifSiteCount).
const (
	SiteOpBoundary = 200 + iota
	SiteCloserGate
	SiteHarnessYield
	SiteEpiRequest
)

// Event kinds.
const (
	EvInvoke = iota + 1
	EvReturn
	EvExit
	EvEvict
	EvReject
	EvHook
	EvIterItem
	EvClock
	EvQuiesce
)

type Ev struct {
	Seq  uint64
	T    int64
	Kind uint8
	Op   uint8
	Task int16
	OpIx int16
	Key  int32
	Val  int32
	OK   bool
	A, B int64
	H    uint64
	Ref  uint64
}

type Violation struct {
	Prop string `json:"prop"`
	Rule string `json:"rule"`
	Msg  string `json:"msg"`
	Seq  uint64 `json:"seq"`
}

const maxEvs = 1 << 16
const maxVals = 1 << 12

type client struct {
	curVal *Val
	id     int
	task   *core.Task
	prog   []Op
	pc     int
	inOp   bool
	cur    Op
	isEpi  bool
	isClo  bool
	// Wait bookkeeping (C15 "goroutines blocked in Wait have been released")
	waitSeq    int  // number of Wait calls started by this client
	waitQueued bool // the current Wait's marker has entered the write buffer
	waitQIdx   int  // ... as the waitQIdx-th marker of the run (markers leave the buffer in that order)
}

// Engine runs one plan.
type Engine struct {
	plan   *Plan
	sim    *core.Sim
	dec    *core.Decider
	picker *core.Picker
	api    cacheAPI

	vals  []*Val
	nvals int32
	evs   []Ev
	nevs  int32
	ovf   bool

	viol []Violation

	keyOfHash map[uint64][]int
	shardPark [256]bool
	nkeys     int // logical keys incl. the epilogue key

	clients []*client
	closer  *client
	epi     *client

	pausing        bool
	closing        bool
	closed         bool
	inSweep        bool
	sweepStage     int
	inflight       int32
	upmaxBusy      int32
	seqNow         uint64
	lastPolicyPush uint64 // seq at which the policy goroutine last recorded a batch
	lastClearInv   uint64 // seq of the latest Clear invocation
	// C03 "no overwrite raises a resident key's cost": tracked for runs with a
	// single writer (see noteWrite)
	raised    bool
	costTrack []costTrack
	initMaxCost    int64  // MaxCost right after NewCache
	modelAs        string // reference model deciding another property (C15 freshness)
	modelFrom      uint64
	nMarkerQueued  int    // Wait markers that have entered the write buffer
	nMarkerClosed  int    // Wait markers closed (by the applier or by a Clear's drain)
	keyHash        []uint64
	keyConf        []uint64
	pendingNew     map[uint64]int // buffered new items per key hash (probes only)
	pendQ          map[uint64][]*Val
	curNew         *Val // value carried by the new item the applier is deciding on (nil if unknown)

	joinWG *sync.WaitGroup

	// requests from the epilogue task to the scheduler
	reqAdvance int64
	reqQuiesce int
	steadyT0   int64 // C14: start of the steady-clock phase of the epilogue
	reqCheck   int
	finalProp  string // property the final expiry check reports under (C14, or C15 after a Clear)

	// metrics epoch accounting (C17)
	epochValid      bool
	getsDone        int64
	setsFalse       int64 // Set/SetWithTTL with ttl>=0 that returned false on the open cache
	getsStartedEver int64
	clearActive     int32
	clearDirty      bool

	// C09 / C03 decision capture (applier context, under the policy lock)
	dec9 decision9

	// statistics
	fp                                uint64
	simNanos                          int64
	startT                            time.Time
	abort                             string
	nClock                            int
	nAfterUnlock, nPreemptAfterUnlock int
	nQuiesce                          int
	lastOrd                           int
	lastSite                          int
	gateCount                         [3]int
}

type decision9 struct {
	active     bool
	key        uint64
	cost       int64
	used       int64
	maxCost    int64
	resident   map[uint64]int64
	est        map[uint64]int64
	incEst     int64
	pool       map[uint64]bool
	victims    map[uint64]bool
	victimSeen map[uint64]bool // victims reported through OnEvict (also with a nil value)
	nReal      int
	fitsExp    bool
	captured   bool // post-decision accounting captured under the policy lock
	postUsed   int64
	postMax    int64
	postSum    int64
	postTrue   int64 // sum without wrap-around (valid unless postOver)
	postOver   bool
	lowering   bool
	added      bool
	wasRes     bool
	rejected   bool
	rejSeq     uint64
	tooBig     bool
}

// E is the engine the callbacks talk to.
var E *Engine

// ---- logging ----

//go:norace
func (e *Engine) log(ev Ev) uint64 {
	seq := e.sim.NextSeq()
	atomic.StoreUint64(&e.seqNow, seq)
	ev.Seq = seq
	ev.T = time.Now().UnixNano()
	i := atomic.AddInt32(&e.nevs, 1) - 1
	if int(i) >= maxEvs {
		e.ovf = true
		return seq
	}
	e.evs[i] = ev
	return seq
}

func (e *Engine) violate(prop, rule, msg string, seq uint64) {
	// the first instance of every (property, rule) is kept; the run goes on
	for i := range e.viol {
		if e.viol[i].Prop == prop && e.viol[i].Rule == rule {
			return
		}
	}
	if seq == 0 && e.sim != nil {
		// online rules (quiescent points, admission decisions): stamp with "now"
		seq = atomic.LoadUint64(&e.seqNow)
	}
	if len(e.viol) < 64 {
		e.viol = append(e.viol, Violation{prop, rule, msg, seq})
	}
}

// PrefixAt returns, per client, how many operations had been invoked when
// event seq was logged (used by the minimiser to cut off what ran later).
func (e *Engine) PrefixAt(seq uint64) []int {
	out := make([]int, len(e.plan.Clients))
	n := int(atomic.LoadInt32(&e.nevs))
	if n > maxEvs {
		n = maxEvs
	}
	for i := 0; i < n; i++ {
		ev := &e.evs[i]
		if seq != 0 && ev.Seq > seq {
			break
		}
		if ev.Kind == EvInvoke && int(ev.Task) >= 0 && int(ev.Task) < len(out) {
			if int(ev.OpIx)+1 > out[ev.Task] {
				out[ev.Task] = int(ev.OpIx) + 1
			}
		}
	}
	return out
}

//go:norace
func (e *Engine) newVal(key int, op Op, task int) *Val {
	i := atomic.AddInt32(&e.nvals, 1) - 1
	if int(i) >= maxVals {
		panic("cachesim: too many values")
	}
	v := &Val{ID: int(i), Key: key, Cost: op.Cost, FnC: op.FnC, TTL: op.TTL, Task: task}
	e.vals[i] = v
	return v
}

func (e *Engine) logicalKey(h uint64) int32 {
	ks := e.keyOfHash[h]
	if len(ks) == 1 {
		return int32(ks[0])
	}
	return -1
}

func (e *Engine) taskID() int16 {
	t := e.sim.Self()
	if t == nil {
		return -2
	}
	if t.Kind != core.KindClient {
		return -1
	}
	return int16(t.Ord)
}

// ---- callbacks installed in the cache ----

//go:norace
func cbExit(v *Val) {
	e := E
	if v == nil {
		probe(PrNilExit)
		return
	}
	seq := e.log(Ev{Kind: EvExit, Val: int32(v.ID), Key: int32(v.Key), Task: e.taskID()})
	v.NExit++
	if v.ExitSeq == 0 {
		v.ExitSeq = seq
		v.ExitT = time.Now().UnixNano()
	}
}

//go:norace
func cbEvict(it *ristretto.Item[*Val]) {
	e := E
	if e.dec9.active && e.dec9.victimSeen != nil && e.dec9.victims[it.Key] {
		e.dec9.victimSeen[it.Key] = true
	}
	v := it.Value
	if v == nil {
		probe(PrNilEvict)
		return
	}
	seq := e.log(Ev{Kind: EvEvict, Val: int32(v.ID), Key: int32(v.Key), H: it.Key, A: it.Cost, OK: e.inSweep, Task: e.taskID()})
	v.NEvict++
	if v.EvictSeq == 0 {
		v.EvictSeq = seq
		v.EvictInSweep = e.inSweep
		v.EvictT = time.Now().UnixNano()
	}
	probe(PrEvicted)
}

//go:norace
func cbReject(it *ristretto.Item[*Val]) {
	e := E
	v := it.Value
	if v == nil {
		return
	}
	seq := e.log(Ev{Kind: EvReject, Val: int32(v.ID), Key: int32(v.Key), H: it.Key, Task: e.taskID()})
	v.NReject++
	if v.RejectSeq == 0 {
		v.RejectSeq = seq
	}
	if e.dec9.active && e.dec9.key == it.Key {
		e.dec9.rejSeq = seq
	} else if !e.plan.Flags.Race && !e.allowedRejectCause(it.Key, v) {
		// C09: a newcomer is turned away only for a cause the discipline allows
		// (too large, already resident, out-voted). Out-voting is established by
		// the admission policy; the other two are facts this harness can see for
		// itself, so code that tests them before asking the policy is fine.
		e.violate("C09", "rejected-without-decision", fmt.Sprintf("value %d (key %d) was reported through OnReject although it is not larger than the cache, its key is not resident and the admission policy was not consulted for it", v.ID, v.Key), seq)
	}
	probe(PrRejected)
}

// ---- hooks ----

func (e *Engine) hooks() *ristretto.VerifHooks {
	if e.plan.Flags.Race {
		// race flavour: no observers that touch engine state from several tasks
		return &ristretto.VerifHooks{
			Yield:         core.Yield,
			TaskStart:     func(kind int, obj ristretto.VerifReadier) { core.TaskStart(kind, obj) },
			TaskEnd:       core.TaskEnd,
			Idle:          core.Idle,
			RangePick:     hookRangePick,
			Stripe:        hookStripe,
			MutexLocked:   core.MutexLocked,
			MutexUnlocked: core.MutexUnlocked,
		}
	}
	return &ristretto.VerifHooks{
		Yield:          core.Yield,
		Event:          hookEvent,
		TaskStart:      func(kind int, obj ristretto.VerifReadier) { core.TaskStart(kind, obj) },
		TaskEnd:        core.TaskEnd,
		Idle:           core.Idle,
		RangePick:      hookRangePick,
		RangeSeen:      hookRangeSeen,
		Stripe:         hookStripe,
		MutexLocked:    core.MutexLocked,
		MutexUnlocking: hookMutexUnlocking,
		MutexUnlocked:  core.MutexUnlocked,
	}
}

// hookMutexUnlocking: the policy lock is about to be released. At the end of
// an admission decision this is the last moment at which the accounting can be
// read atomically with the decision (a preemption point follows the release).
func hookMutexUnlocking(kind int) {
	e := E
	if kind == 2 {
		if t := e.sim.Self(); t != nil && t.Kind == core.KindPolicy {
			// the policy goroutine has just recorded a batch of accesses
			atomic.StoreUint64(&e.lastPolicyPush, atomic.LoadUint64(&e.seqNow))
		}
	}
	if kind != 2 || !e.dec9.active || e.dec9.captured {
		return
	}
	if t := e.sim.Self(); t == nil || t.Kind != core.KindApplier {
		return
	}
	d := &e.dec9
	kcs, used, max := e.api.PolicyCostsLocked()
	d.postUsed, d.postMax, d.postSum = used, max, 0
	d.postTrue, d.postOver = 0, false
	for _, kc := range kcs {
		d.postSum += kc.Cost // wraps exactly as the cache's own counter does
		if kc.Cost > 0 && d.postTrue > math.MaxInt64-kc.Cost {
			d.postOver = true // the true total does not fit in an int64
		} else {
			d.postTrue += kc.Cost
		}
	}
	d.captured = true
}

func hookRangePick(site int, keys []uint64) int {
	e := E
	// order the alternatives by logical key so that the decision does not
	// depend on hash values that vary per process
	type alt struct {
		idx int
		lk  int
		h   uint64
	}
	alts := make([]alt, len(keys))
	for i, h := range keys {
		lk := 1 << 30
		if ks := e.keyOfHash[h]; len(ks) > 0 {
			lk = ks[0]
		}
		alts[i] = alt{i, lk, h}
	}
	sort.Slice(alts, func(i, j int) bool {
		if alts[i].lk != alts[j].lk {
			return alts[i].lk < alts[j].lk
		}
		return alts[i].h < alts[j].h
	})
	if e.plan.Flags.HashDep && (site == 3 || site == 4) {
		// lockedMap.Clear / IterValues enumerate one shard: which keys share a
		// shard depends on per-process hash values, so no decision is drawn here
		return alts[0].idx
	}
	return alts[e.dec.Choose(len(alts), core.LRange)].idx
}

func hookRangeSeen(site int, key uint64) {
	e := E
	if site == 1 && e.dec9.active { // sampledLFU.fillSample
		if _, res := e.dec9.resident[key]; res && !e.dec9.victims[key] {
			e.dec9.pool[key] = true
		}
	}
}

func hookStripe(nfree int) (int, bool) {
	e := E
	max := e.plan.Cfg.MaxStripes
	lose := false
	if nfree == 0 {
		return 0, false // new stripe
	}
	n := nfree
	if nfree < max {
		n = nfree + 1 // may also open a new stripe
	}
	pick := 0
	if n > 1 {
		pick = e.dec.Choose(n, core.LStripe)
	}
	if pick < nfree && e.plan.Sim.PStripeLose > 0 && e.dec.Prob(float64(e.plan.Sim.PStripeLose)/1000, core.LStripe) {
		lose = true
		probe(PrStripeLost)
	}
	return pick, lose
}

const (
	evApplierNew    = 1
	evApplierAdded  = 2
	evPolicyVictim  = 3
	evApplierUpdate = 4
	evApplierDelete = 5
	evApplierDone   = 6
	evApplierMarker = 7
	evSweepBegin    = 8
	evSweepEnd      = 9
	evSweepKey      = 10
	evClearMarker   = 11
	evClearDrained  = 12
	evSetDropped    = 13
	evSetQueued     = 14
	evSweepSkipped  = 15
	evPolicyAdd     = 18
	evPolicyReject  = 19
	evPolicyFits    = 20
	evGetsDropped   = 21
)

func hookEvent(kind int, key uint64, a, b int64) {
	e := E
	lk := e.logicalKey(key)
	switch kind {
	case evSweepBegin:
		e.inSweep = true
		probe(PrSweep)
	case evSweepEnd:
		e.inSweep = false
	case evGetsDropped:
		probe(PrGetBatchDropped)
	case evSetQueued:
		if a == 0 && e.pendingNew != nil {
			e.pendingNew[key]++
			// remember which value this buffered insert carries (late-apply probe)
			if t := e.sim.Self(); t != nil && t.Kind == core.KindClient {
				if cl := e.clientOf(t); cl != nil && cl.curVal != nil {
					e.pendQ[key] = append(e.pendQ[key], cl.curVal)
				}
			}
		}
	case evApplierNew:
		e.curNew = nil
		if e.pendQ != nil {
			if q := e.pendQ[key]; len(q) > 0 {
				v := q[0]
				e.pendQ[key] = q[1:]
				e.curNew = v
				if v.TTL > 0 && v.RetT != 0 && time.Now().UnixNano() > satAdd(v.RetT, v.TTL) {
					probe(PrLateApply)
				}
			}
		}
	case evSetDropped:
		if a == 0 {
			probe(PrNewSetDropped)
		} else {
			probe(PrUpdateDropped)
		}
	case evClearMarker:
		probe(PrClearReleasedWaiter)
		e.nMarkerClosed++
	case evApplierMarker:
		e.nMarkerClosed++
	case evClearDrained:
		switch a {
		case 0:
			if e.pendingNew != nil {
				e.pendingNew[key]--
				if q := e.pendQ[key]; len(q) > 0 {
					e.pendQ[key] = q[1:]
				}
			}
			probe(PrClearDrainedNew)
		case 1:
			probe(PrClearDrainedTomb)
		case 2:
			probe(PrClearDrainedUpdate)
		}
	case evSweepKey:
		probe(PrSweepRemoved)
	case evSweepSkipped:
		probe(PrSweepSkipped)
	case evPolicyAdd:
		e.c9Begin(key, a)
	case evPolicyFits:
	case evPolicyVictim:
		e.c9Victim(key)
	case evPolicyReject:
		e.c9Reject(key)
	case evApplierAdded:
		e.c9Added(key, a == 1, int(b))
	case evApplierDone:
		if a == 0 {
			if e.pendingNew != nil {
				e.pendingNew[key]--
			}
			e.c9Done(key)
		}
	}
	e.log(Ev{Kind: EvHook, Op: uint8(kind), Key: lk, H: key, A: a, B: b, Task: -1})
}

// ---- running ----

type RunResult struct {
	Seed       uint64           `json:"seed"`
	Profile    string           `json:"profile"`
	Violations []Violation      `json:"violations,omitempty"`
	Abort      string           `json:"abort,omitempty"`
	Steps      int              `json:"steps"`
	SimNanos   int64            `json:"sim_ns"`
	FP         uint64           `json:"fp"`
	Decisions  int              `json:"decisions"`
	Strategy   int              `json:"strategy"`
	Probes     [NumProbes]int   `json:"-"`
	Events     int              `json:"events"`
	Tape       []core.TapeEntry `json:"-"`
	Diverged   string           `json:"diverged,omitempty"`
	PanicTxt   string           `json:"panic,omitempty"`
	LeftTasks  int              `json:"left_tasks,omitempty"`
	Trace      []string         `json:"-"`
}

func NewEngine() *Engine {
	return &Engine{vals: make([]*Val, maxVals), evs: make([]Ev, maxEvs)}
}

func (e *Engine) reset(plan *Plan, dec *core.Decider) {
	for i := int32(0); i < atomic.LoadInt32(&e.nvals); i++ {
		e.vals[i] = nil
	}
	vals, evs := e.vals, e.evs
	*e = Engine{vals: vals, evs: evs}
	e.plan = plan
	e.dec = dec
}

// Run executes the plan inside the current synctest bubble. It must be called
// on the bubble's root goroutine.
func (e *Engine) Run(plan *Plan, dec *core.Decider) *RunResult {
	e.reset(plan, dec)
	E = e
	curProbes = [NumProbes]int{}
	e.startT = time.Now()
	sim := core.New(dec)
	e.sim = sim
	core.S = sim
	sim.YieldFilter = e.onYield
	sim.AutoPM, sim.AutoVisits, sim.AutoSeed = plan.Sim.PAuto, plan.Sim.AutoVisits, plan.Seed
	sim.NotifySite = siteDelSent
	sim.NotifySite2 = ristrettoSiteWaitRecv
	if plan.Flags.Race {
		sim.YieldFilter = raceYieldFilter
		sim.NotifySite = -1
		sim.NotifySite2 = -1
	}
	e.picker = core.NewPicker(plan.Sim.Sched, dec)

	if plan.Cfg.ClockOffset > 0 {
		time.Sleep(time.Duration(plan.Cfg.ClockOffset))
	}
	old := ristretto.VerifSetBufSize(plan.Cfg.SetBufSize)
	if plan.Cfg.BucketSecs > 0 {
		// stays in force for the whole run (the sweep reads it on every tick)
		oldB := ristretto.VerifSetBucketSecs(plan.Cfg.BucketSecs)
		defer ristretto.VerifSetBucketSecs(oldB)
	}
	ristretto.VerifInstall(e.hooks())
	api, err := newCache(&plan.Cfg)
	ristretto.VerifSetBufSize(old)
	if err != nil {
		ristretto.VerifInstall(nil)
		return &RunResult{Seed: plan.Seed, Profile: plan.Profile, Abort: "newcache: " + err.Error()}
	}
	e.api = api
	e.initMaxCost = api.MaxCost()
	e.nkeys = len(plan.Cfg.Keys)
	e.keyOfHash = map[uint64][]int{}
	for i := 0; i < e.nkeys; i++ {
		h, cf := api.Hash(i)
		e.keyHash = append(e.keyHash, h)
		e.keyConf = append(e.keyConf, cf)
		e.keyOfHash[h] = append(e.keyOfHash[h], i)
		e.shardPark[h%256] = true
	}
	e.epochValid = true
	e.joinWG = new(sync.WaitGroup)
	if !core.RaceEnabled {
		e.pendingNew = map[uint64]int{}
		e.pendQ = map[uint64][]*Val{}
	}

	for i, prog := range plan.Clients {
		cl := &client{id: i, prog: prog}
		e.clients = append(e.clients, cl)
		e.joinWG.Add(1)
		cl.task = sim.Spawn(fmt.Sprintf("c%d", i), i, core.KindClient, func() {
			defer e.joinWG.Done()
			e.runClient(cl)
		})
	}
	if len(plan.Closer) > 0 {
		cl := &client{id: 90, prog: plan.Closer, isClo: true}
		e.closer = cl
		e.joinWG.Add(1)
		cl.task = sim.Spawn("closer", 90, core.KindClient, func() {
			defer e.joinWG.Done()
			core.Yield(SiteCloserGate, 0)
			e.runClient(cl)
		})
	}
	sim.Settle()
	// from here on the scheduler's own hand-offs must not order the tasks'
	// memory accesses for the race detector
	sim.SchedRaceOff()
	defer sim.SchedRaceOn()

	reason := e.schedule(func() bool { return e.clientsDone() }, false)
	if reason == "" {
		cl := &client{id: 99, prog: plan.Epilogue, isEpi: true}
		e.epi = cl
		cl.task = sim.Spawn("epi", 99, core.KindClient, func() {
			// a real program joins its workers before it closes the cache
			e.joinWG.Wait()
			e.runClient(cl)
		})
		sim.Settle()
		reason = e.schedule(func() bool { return cl.task.State() == core.StDone }, true)
	}
	// scheduling is over: the rest runs with the detector listening again
	// (fmt and friends use sync.Pool, whose ordering must not be ignored)
	sim.SchedRaceOn()
	res := &RunResult{Seed: plan.Seed, Profile: plan.Profile, Strategy: plan.Sim.Sched.Strategy}
	if sim.Panicked() && reason == "" {
		reason = "panic"
	}
	res.PanicTxt = sim.PanicText()
	if reason == "" {
		// normal end: every goroutine of the cache must be gone (C15)
		sim.Settle()
		for _, t := range sim.Tasks() {
			if t.State() != core.StDone {
				e.violate("C15", "goroutine-left", fmt.Sprintf("task %s still alive after Close (state %d site %d)", t.Name, t.State(), t.Site), 0)
			}
		}
	}
	desc := ""
	if reason != "" {
		desc = e.describeTasks()
		if !plan.Flags.Race {
			e.checkStrandedWaiters()
		}
	}
	if reason != "" {
		res.LeftTasks = sim.KillAll()
	} else {
		for _, t := range sim.Tasks() {
			if t.State() != core.StDone {
				res.LeftTasks = sim.KillAll()
				break
			}
		}
	}
	res.Abort = reason
	e.simNanos = int64(time.Since(e.startT))
	ristretto.VerifInstall(nil)
	core.S = nil

	if (reason == "" || reason == "panic") && !plan.Flags.Race {
		e.checkHistory()
	}
	if reason == "deadlock" || reason == "stepcap" || reason == "panic" || reason == "quiesce-stuck" {
		e.violate("C08", reason, fmt.Sprintf("%s at step %d: %s", reason, sim.Step, desc), 0)
	}
	res.Violations = e.viol
	res.Steps = sim.Step
	res.SimNanos = e.simNanos
	res.FP = e.fp
	res.Decisions = len(dec.Tape)
	res.Tape = dec.Tape
	res.Probes = curProbes
	res.Events = int(atomic.LoadInt32(&e.nevs))
	res.Diverged = dec.Diverged
	if e.ovf {
		res.Abort = "event-overflow"
	}
	return res
}

func (e *Engine) describeTasks() string {
	s := ""
	for _, t := range e.sim.Tasks() {
		if t.State() == core.StDone {
			continue
		}
		s += fmt.Sprintf("[%s st=%d site=%d] ", t.Name, t.State(), t.Site)
	}
	return s
}

func (e *Engine) clientsDone() bool {
	for _, cl := range e.clients {
		if cl.task.State() != core.StDone {
			return false
		}
	}
	if e.closer != nil && e.closer.task.State() != core.StDone {
		return false
	}
	return true
}

// closerMayGo: every other client is idle (at an operation boundary or
// finished) or durably blocked inside Wait() on its marker.
func (e *Engine) closerMayGo() bool {
	for _, cl := range e.clients {
		switch cl.task.State() {
		case core.StDone:
		case core.StParked:
			if cl.task.Site != SiteOpBoundary {
				return false
			}
		case core.StRunning:
			// blocked inside Wait: on the marker send (full write buffer) or on the marker itself
			if !(cl.inOp && cl.cur.K == OpWait && (cl.task.Site == ristrettoSiteWaitRecv || cl.task.Site == ristretto.VerifSiteWaitSend)) {
				return false
			}
		default:
			return false
		}
	}
	return true
}

func (e *Engine) eligible(ts []*core.Task) []*core.Task {
	out := ts[:0:0]
	for _, t := range ts {
		if t.State() == core.StParked {
			if (e.pausing || e.closing) && t.Site == SiteOpBoundary && !(e.closing && e.closer != nil && t == e.closer.task) {
				continue
			}
			if t.Site == SiteCloserGate {
				continue // handled separately
			}
			if t.Site == SiteEpiRequest {
				continue
			}
		}
		out = append(out, t)
	}
	return out
}

func (e *Engine) chooseGate(t *core.Task) int {
	m := t.Mask()
	var cases []int
	for b := 0; b < 3; b++ {
		if m&(1<<b) != 0 {
			cases = append(cases, b)
		}
	}
	c := cases[0]
	if len(cases) > 1 {
		c = cases[e.dec.Choose(len(cases), core.LGate)]
	}
	e.gateCount[c]++
	return c
}

// StepTrace (debugging aid, VERIF_STEP_TRACE=<file>): one line per scheduling
// step, written by the worker after each run.
var StepTrace []byte
var stepTraceOn = os.Getenv("VERIF_STEP_TRACE") != ""

//go:norace
func traceStep(step int, t *core.Task, gate int) {
	// no fmt here: its sync.Pool is shared with the tasks, and the scheduler
	// runs with the race detector's view of synchronisation switched off
	b := strconv.AppendInt(StepTrace, int64(step), 10)
	b = append(append(b, ' '), t.Name...)
	b = strconv.AppendInt(append(b, " site="...), int64(t.Site), 10)
	b = strconv.AppendUint(append(b, " key="...), t.Key, 10)
	b = strconv.AppendInt(append(b, " gate="...), int64(gate), 10)
	b = strconv.AppendInt(append(b, " st="...), int64(t.State()), 10)
	StepTrace = append(b, '\n')
}

func (e *Engine) release(t *core.Task) {
	gate := 0
	if t.State() == core.StIdle {
		gate = e.chooseGate(t)
	}
	// fingerprint + yield-pair statistics
	e.fp = (e.fp ^ uint64(t.Ord*131+t.Site*7+gate)) * 0x100000001b3
	if e.lastOrd != t.Ord {
		notePair(e.lastSite, t.Site)
	}
	if t.Site == core.SiteAfterUnlock {
		e.nAfterUnlock++
		if e.lastOrd != t.Ord {
			e.nPreemptAfterUnlock++ // another task ran between the unlock and the code after it
		}
	}
	if stepTraceOn {
		traceStep(e.sim.Step, t, gate)
	}
	e.sim.Release(t, gate)
	if atomic.LoadInt32(&e.sim.Notifies) != 0 {
		e.flushNotifies()
	}
	if t.State() == core.StRunning && (t.Site == ristretto.VerifSiteDelSend || t.Site == ristretto.VerifSiteWaitSend) {
		probe(PrDelBlocked) // blocked on a full write buffer
	}
	e.lastOrd, e.lastSite = t.Ord, t.Site
	workerProgress.Add(1)
}

// flushNotifies logs, from the scheduler goroutine and in task order, the
// tombstones queued during the step that has just settled.
func (e *Engine) flushNotifies() {
	atomic.StoreInt32(&e.sim.Notifies, 0)
	for _, t := range e.sim.Tasks() {
		if t.Notify && t.State() == core.StParked && t.Site == siteDelSent {
			t.Notify = false
			e.log(Ev{Kind: EvHook, Op: evDelQueued, Key: e.logicalKey(t.Key), H: t.Key, Task: -1})
		}
		if t.Notify && t.State() == core.StParked && t.Site == ristrettoSiteWaitRecv {
			// a Wait marker has entered the write buffer (at most one per step:
			// the order of these parks is the order of the markers in the buffer)
			t.Notify = false
			if cl := e.clientOf(t); cl != nil {
				cl.waitQueued, cl.waitQIdx = true, e.nMarkerQueued
			}
			e.nMarkerQueued++
		}
	}
}

// costTrack follows one key through a single-writer history: has it been
// written since it was last known to be absent (never written, or deleted and
// drained by a Wait, or cleared), and what is the smallest cost it was given
// since then. A Set with a larger cost than that may be an overwrite that
// raises the cost of a resident (or pending) key: the run then leaves the part
// of C03 that promises RemainingCost() >= 0.
type costTrack struct {
	written    bool
	minCost    int64
	delPending bool
}

func (e *Engine) noteWrite(key int, cost int64) {
	if e.costTrack == nil {
		e.costTrack = make([]costTrack, e.nkeys)
	}
	t := &e.costTrack[key]
	if t.written && cost > t.minCost {
		e.raised = true
	}
	if !t.written || cost < t.minCost {
		t.minCost = cost
	}
	t.written, t.delPending = true, false
}

func (e *Engine) noteDel(key int) {
	if e.costTrack != nil {
		e.costTrack[key].delPending = true
	}
}

// noteDrained: a Wait returned (all) or a Clear returned (clear): keys whose
// last write was a Del are absent now; after a Clear every key is.
func (e *Engine) noteDrained(clear bool) {
	for i := range e.costTrack {
		if clear || e.costTrack[i].delPending {
			e.costTrack[i] = costTrack{}
		}
	}
}

// allowedRejectCause: is the value larger than the whole cache (its cost as
// given by the caller - explicit or through Config.Cost - plus the measured
// internal item cost), or is its key accounted by the policy right now?
// Called from the OnReject callback (applier context, one task running, no
// policy lock held in simulation).
func (e *Engine) allowedRejectCause(keyHash uint64, v *Val) bool {
	kcs, _, max := e.api.PolicyCostsLocked()
	if e.initMaxCost > 0 && e.initMaxCost < max {
		// MaxCost is only ever raised in the runs this rule looks at: the code may
		// have compared with an earlier, smaller capacity than the one read now
		max = e.initMaxCost
	}
	given := v.Cost
	if given == 0 && e.plan.Cfg.CostFn {
		given = v.FnC
	}
	if !e.plan.Cfg.IgnoreIntern {
		given = satAdd(given, e.internalCost())
	}
	if given > max || !e.plan.Flags.NoLowerMax {
		return true
	}
	for _, kc := range kcs {
		if kc.Key == keyHash {
			return true
		}
	}
	return false
}

type blockedWaiter struct {
	cl  *client
	seq int
}

// blockedWaiters: the other callers that are blocked inside Wait right now -
// durably blocked on the marker send (full write buffer) or past the send.
// Called in task context at the very start of a step: every other task is
// parked or blocked.
func (e *Engine) blockedWaiters(self *client) []blockedWaiter {
	var out []blockedWaiter
	add := func(cl *client) {
		if cl == nil || cl == self || !cl.inOp || cl.cur.K != OpWait || cl.task == nil {
			return
		}
		st, site := cl.task.State(), cl.task.Site
		if (st == core.StRunning && (site == ristretto.VerifSiteWaitSend || site == ristrettoSiteWaitRecv)) || (st == core.StParked && site == ristrettoSiteWaitRecv) {
			out = append(out, blockedWaiter{cl, cl.waitSeq})
		}
	}
	for _, cl := range e.clients {
		add(cl)
	}
	add(e.epi)
	add(e.closer)
	return out
}

// checkWaitersReleased: after Clear returns, goroutines blocked in Wait have
// been released (C15): the marker of every Wait that was blocked when the
// Clear was invoked has left the write buffer and has been closed. Markers
// leave the buffer in the order they entered it, so the k-th marker queued is
// the k-th marker closed.
func (e *Engine) checkWaitersReleased(ws []blockedWaiter, clearInv uint64, what string) {
	for _, w := range ws {
		cl := w.cl
		if cl.waitSeq != w.seq || !cl.inOp || cl.cur.K != OpWait {
			continue // that Wait has returned
		}
		probe(PrWaiterReleaseChecked)
		if !cl.waitQueued {
			e.violate("C15", "waiter-not-released", fmt.Sprintf("a Wait (client %d) was blocked on the full write buffer when %s was invoked at #%d and is still blocked on it after %s returned", cl.id, what, clearInv, what), 0)
		} else if e.nMarkerClosed <= cl.waitQIdx {
			e.violate("C15", "waiter-not-released", fmt.Sprintf("a Wait (client %d) was blocked when %s was invoked at #%d; after %s returned its marker is still in the write buffer (marker %d, %d closed so far)", cl.id, what, clearInv, what, cl.waitQIdx, e.nMarkerClosed), 0)
		}
	}
}

// schedule runs tasks until done() holds. fair: uniform picks, no clock or
// fault decisions (epilogue / bounded-progress phase).
func (e *Engine) schedule(done func() bool, fair bool) string {
	stall := 0
	for {
		if done() {
			return ""
		}
		if e.sim.Panicked() {
			return "panic"
		}
		if e.dec.Diverged != "" {
			return "diverged"
		}
		if e.sim.Step > e.plan.Sim.MaxSteps {
			return "stepcap"
		}
		all := e.sim.Runnable()
		// epilogue requests
		if e.epi != nil && e.epi.task.State() == core.StParked && e.epi.task.Site == SiteEpiRequest {
			if r := e.serveEpilogue(); r != "" {
				return r
			}
			e.release(e.epi.task)
			continue
		}
		runnable := e.eligible(all)
		// closer gate
		if e.closer != nil && e.closer.task.State() == core.StParked && e.closer.task.Site == SiteCloserGate && e.closerMayGo() {
			if len(runnable) == 0 || e.othersDone() || e.dec.Prob(0.05, core.LFault) {
				e.closing = true
				for _, cl := range e.clients {
					if cl.task.State() == core.StRunning {
						probe(PrCloseWithWaiter)
						break
					}
				}
				for _, cl := range e.clients {
					if cl.task.State() == core.StRunning && cl.task.Site == ristretto.VerifSiteWaitSend {
						probe(PrCloseWaiterAtSend)
						break
					}
				}
				if sn := e.api.Snapshot(); sn.SetBufLen > 0 {
					probe(PrCloseWithBuffered)
				}
				e.release(e.closer.task)
				continue
			}
		}
		if len(runnable) == 0 {
			if stall < 4 {
				stall++
				e.advance(e.tickerPeriod() + 1)
				continue
			}
			return "deadlock"
		}
		if !fair {
			if e.plan.Sim.PClock > 0 && e.dec.Prob(float64(e.plan.Sim.PClock)/1000, core.LClock) {
				e.clockDecision()
				continue
			}
			if e.plan.Sim.PQuiesce > 0 && !e.closing && e.dec.Prob(float64(e.plan.Sim.PQuiesce)/10000, core.LFault) {
				if r := e.quiesce(); r != "" {
					return r
				}
				continue
			}
		}
		t := e.picker.Pick(runnable, fair)
		e.release(t)
		stall = 0
		if !e.plan.Flags.Race && !e.closed && e.sim.Step%4 == 0 {
			e.checkAccounting()
		}
	}
}

// checkAccounting: RemainingCost() always equals MaxCost minus the sum of the
// accounted costs (C03) - not only at quiescent points. Runs on the scheduler
// goroutine between two steps: every task is parked outside the policy lock.
func (e *Engine) checkAccounting() {
	used, max, sum, _ := e.api.PolicyState()
	if used != sum {
		e.violate("C03", "used-sum", fmt.Sprintf("step %d: used=%d differs from the sum of accounted costs %d", e.sim.Step, used, sum), 0)
	}
	if rem := e.api.RemainingCost(); rem != e.api.MaxCost()-sum && max == e.api.MaxCost() {
		e.violate("C03", "remaining", fmt.Sprintf("step %d: RemainingCost()=%d but MaxCost()-sum=%d-%d", e.sim.Step, rem, max, sum), 0)
	}
}

func (e *Engine) othersDone() bool {
	for _, cl := range e.clients {
		if cl.task.State() != core.StDone {
			return false
		}
	}
	return true
}

func (e *Engine) tickerPeriod() time.Duration {
	s := e.plan.Cfg.TickerSec
	if s == 0 {
		s = 5
	}
	return time.Duration(s) * time.Second / 2
}

func (e *Engine) advance(d time.Duration) {
	if d <= 0 {
		return
	}
	e.nClock++
	e.log(Ev{Kind: EvClock, A: int64(d), Task: -2})
	e.fp = (e.fp ^ uint64(d)) * 0x100000001b3
	e.sim.Advance(d)
}

// clockDecision draws a clock advance from the run's mixture.
func (e *Engine) clockDecision() {
	kinds := e.plan.Sim.ClockKinds
	k := kinds[0]
	if len(kinds) > 1 {
		k = kinds[e.dec.Choose(len(kinds), core.LClock)]
	}
	now := time.Now().UnixNano()
	var d int64
	switch k {
	case ClkTiny:
		d = 1 + int64(e.dec.Choose(1000000, core.LClock))
	case ClkMilli:
		d = int64(1+e.dec.Choose(1000, core.LClock)) * 1e6
	case ClkExpiry:
		// nearest pending expiration known to the harness
		best := int64(0)
		n := int(atomic.LoadInt32(&e.nvals))
		for i := 0; i < n; i++ {
			v := e.vals[i]
			if v == nil || v.TTL <= 0 || v.NExit > 0 {
				continue
			}
			if v.TTL > 1<<50 {
				continue // years away
			}
			for _, x := range []int64{v.InvT + v.TTL, v.RetT + v.TTL} {
				if x > now && (best == 0 || x < best) && v.RetT != 0 {
					best = x
				}
			}
		}
		if best == 0 {
			d = 1 + int64(e.dec.Choose(1000, core.LClock))
		} else {
			d = best - now + int64(e.dec.Choose(3, core.LClock)) - 1
			probe(PrClockAtExpiry)
		}
	case ClkPastExpiry:
		// a pending expiration, any of them (not the nearest only: a far one
		// makes the clock pass many sweep periods at once)
		var cands []int64
		n := int(atomic.LoadInt32(&e.nvals))
		for i := 0; i < n; i++ {
			v := e.vals[i]
			if v == nil || v.TTL <= 0 || v.NExit > 0 || v.TTL > 1<<50 || v.RetT == 0 {
				continue
			}
			if x := v.InvT + v.TTL; x > now {
				cands = append(cands, x)
			}
		}
		if len(cands) == 0 {
			d = int64(1+e.dec.Choose(30, core.LClock)) * 1e9
			break
		}
		x := cands[e.dec.Choose(len(cands), core.LClock)]
		units := []int64{1e9, 2e9, 3e9, 5e9, 7e9, 10e9, 13e9, 30e9}
		if b := e.plan.Cfg.BucketSecs; b > 0 {
			units = append(units, b*1e9, b*1e9) // the width this run configured (a harness knob)
		}
		unit := units[e.dec.Choose(len(units), core.LClock)]
		end := (x/unit + 1) * unit // end of the round period the expiration lies in
		off := []int64{1, 1e6, unit / 2, unit - 1e6}[e.dec.Choose(4, core.LClock)]
		d = end + off - now
		probe(PrClockPastExpiry)
	case ClkBucket:
		unit := []int64{1e9, 5e9}[e.dec.Choose(2, core.LClock)]
		next := (now/unit + 1) * unit
		off := []int64{-1e6, -1, 0, 1, 1e6, 1e9}[e.dec.Choose(6, core.LClock)]
		d = next - now + off
	case ClkTicker:
		d = int64(e.tickerPeriod()) + []int64{-1e6, 0, 1, 1e6}[e.dec.Choose(4, core.LClock)]
	case ClkLong:
		d = int64(1+e.dec.Choose(60, core.LClock)) * 1e10
	}
	if d <= 0 {
		d = 1
	}
	e.advance(time.Duration(d))
}

// quiesce withholds clients at operation boundaries and runs everything else
// until the system is quiet, then runs the quiescent-point checks.
func (e *Engine) quiesce() string {
	e.pausing = true
	defer func() { e.pausing = false }()
	budget := 6000
	for {
		if e.sim.Panicked() {
			return "panic"
		}
		runnable := e.eligible(e.sim.Runnable())
		if len(runnable) == 0 {
			break
		}
		budget--
		if budget == 0 {
			return "quiesce-stuck"
		}
		t := e.picker.Pick(runnable, true)
		e.release(t)
	}
	if len(e.sim.Blocked()) > 0 {
		return "deadlock"
	}
	e.nQuiesce++
	e.log(Ev{Kind: EvQuiesce, Task: -2})
	e.checkQuiescent(false)
	return ""
}

// serveEpilogue handles a request of the epilogue task (which is parked at
// SiteEpiRequest and is the only client left).
func (e *Engine) serveEpilogue() string {
	if e.reqAdvance > 0 {
		d := e.reqAdvance
		e.reqAdvance = 0
		e.advance(time.Duration(d))
		return ""
	}
	if e.reqQuiesce != 0 || e.reqCheck != 0 {
		// run the background tasks dry first
		budget := 6000
		for {
			var run []*core.Task
			for _, t := range e.sim.Runnable() {
				if t != e.epi.task {
					run = append(run, t)
				}
			}
			if len(run) == 0 {
				break
			}
			budget--
			if budget == 0 {
				return "quiesce-stuck"
			}
			e.release(e.picker.Pick(run, true))
		}
		e.nQuiesce++
		e.log(Ev{Kind: EvQuiesce, Task: -2})
		q, c := e.reqQuiesce, e.reqCheck
		e.reqQuiesce, e.reqCheck = 0, 0
		if !e.closed {
			if q != 0 {
				e.checkQuiescent(q == 2)
			}
			switch q {
			case 4:
				e.steadyT0 = time.Now().UnixNano()
			case 5:
				e.checkSteadyTTL()
			}
			switch c {
			case OpCheckEmpty:
				e.checkEmpty()
			case OpCheckFresh:
				e.checkFresh()
			}
		}
	}
	return ""
}

// ---- client side ----

func (e *Engine) runClient(cl *client) {
	if e.plan.Flags.Race {
		for pc := 0; pc < len(cl.prog); pc++ {
			core.Yield(SiteOpBoundary, 0)
			e.raceOp(cl, cl.prog[pc])
		}
		return
	}
	for cl.pc = 0; cl.pc < len(cl.prog); cl.pc++ {
		core.Yield(SiteOpBoundary, 0)
		e.runOp(cl, cl.pc, cl.prog[cl.pc])
	}
}

// raceYieldFilter is the yield filter of the race flavour: it reads only data
// that is immutable during the run.
//
//go:norace
func raceYieldFilter(site int, key uint64) bool {
	e := E
	switch site {
	case ristrettoSiteIterShard, ristrettoSiteClearShard:
		if e.plan.Flags.HashDep {
			return false
		}
		return e.shardPark[key%256]
	}
	return true
}

// raceOp is the client side of the race flavour (C08): it calls the public
// API and keeps no shared bookkeeping of its own, so that every report of the
// race detector is about ristretto's code.
func (e *Engine) raceOp(cl *client, op Op) {
	switch op.K {
	case OpGet:
		e.api.Get(op.Key)
	case OpSet, OpSetRoom:
		v := e.newVal(op.Key, op, cl.id)
		e.api.Set(op.Key, v, op.Cost, time.Duration(op.TTL))
	case OpDel:
		e.api.Del(op.Key)
	case OpGetTTL:
		e.api.GetTTL(op.Key)
	case OpIter:
		n := int64(0)
		e.api.IterValues(func(v *Val) bool { n++; return op.Arg >= 0 && n > op.Arg })
	case OpWait:
		e.api.Wait()
	case OpClear:
		e.api.Clear()
	case OpUpdateMaxCost:
		target := satAdd(e.api.MaxCost(), op.Arg)
		if op.Arg < -(1 << 49) {
			target = op.Arg + (1 << 50)
		}
		if target < 1 {
			target = 1
		}
		e.api.UpdateMaxCost(target)
	case OpMaxCost:
		e.api.MaxCost()
	case OpRemaining:
		e.api.RemainingCost()
	case OpMetrics:
		if m := e.api.Metrics(); m != nil {
			_ = m.Hits() + m.Misses() + m.KeysAdded() + m.KeysUpdated() + m.KeysEvicted() + m.CostAdded() + m.CostEvicted() +
				m.SetsDropped() + m.SetsRejected() + m.GetsDropped() + m.GetsKept()
			_ = m.Ratio()
			_ = m.String()
			_ = m.LifeExpectancySeconds()
		}
	case OpYield:
		for i := int64(0); i < op.Arg; i++ {
			core.Yield(SiteHarnessYield, 0)
		}
	case OpClose:
		e.api.Close()
	}
}

//go:norace
func (e *Engine) opBegin(cl *client, op Op) {
	cl.inOp, cl.cur = true, op
	n := atomic.AddInt32(&e.inflight, 1)
	if atomic.LoadInt32(&e.clearActive) > 0 {
		e.clearDirty = true
	}
	if op.K == OpClear {
		if n > 1 {
			e.clearDirty = true
		}
	}
}

//go:norace
func (e *Engine) opEnd(cl *client) {
	cl.inOp = false
	atomic.AddInt32(&e.inflight, -1)
}

func vid(v *Val) int32 {
	if v == nil {
		return -1
	}
	return int32(v.ID)
}

func (e *Engine) runOp(cl *client, oi int, op Op) {
	tk := int16(cl.id)
	ix := int16(oi)
	switch op.K {
	case OpGet:
		e.opBegin(cl, op)
		inv := e.log(Ev{Kind: EvInvoke, Op: OpGet, Task: tk, OpIx: ix, Key: int32(op.Key)})
		wasClosed := e.closed
		if !wasClosed {
			atomic.AddInt64(&e.getsStartedEver, 1)
		}
		v, ok := e.api.Get(op.Key)
		e.log(Ev{Kind: EvReturn, Op: OpGet, Task: tk, OpIx: ix, Key: int32(op.Key), Val: vid(v), OK: ok, Ref: inv, B: b2i(wasClosed)})
		if !wasClosed {
			atomic.AddInt64(&e.getsDone, 1)
		}
		e.opEnd(cl)
	case OpSet, OpSetRoom:
		e.opBegin(cl, op)
		if op.K == OpSetRoom {
			// cost relative to the room left right now (white box, no yield)
			room := e.api.RemainingCost()
			c := room + op.Arg
			if !e.plan.Cfg.IgnoreIntern {
				c -= e.internalCost()
			}
			if c < 0 {
				c = 0
			}
			op.Cost = c
		}
		v := e.newVal(op.Key, op, cl.id)
		if op.Cost == 0 && !e.plan.Cfg.CostFn {
			v.FnC = 0
		}
		if eff := op.Cost; true {
			if eff == 0 {
				eff = v.FnC // what Config.Cost will return (0 without a Cost function)
			}
			e.noteWrite(op.Key, eff)
		}
		v.InvT = time.Now().UnixNano()
		cl.curVal = v
		inv := e.log(Ev{Kind: EvInvoke, Op: OpSet, Task: tk, OpIx: ix, Key: int32(op.Key), Val: int32(v.ID), A: op.Cost, B: op.TTL})
		v.InvSeq = inv
		wasClosed := e.closed
		if e.pendingNew != nil && e.pendingNew[e.keyHash[op.Key]] > 0 {
			probe(PrOverwriteWhileBuffered)
		}
		ok := e.api.Set(op.Key, v, op.Cost, time.Duration(op.TTL))
		v.RetT = time.Now().UnixNano()
		if ok {
			v.Accepted = 1
		} else {
			v.Accepted = -1
			if op.TTL >= 0 && !wasClosed {
				atomic.AddInt64(&e.setsFalse, 1)
			}
		}
		v.RetSeq = e.log(Ev{Kind: EvReturn, Op: OpSet, Task: tk, OpIx: ix, Key: int32(op.Key), Val: int32(v.ID), OK: ok, Ref: inv, B: b2i(wasClosed)})
		e.opEnd(cl)
	case OpDel:
		e.opBegin(cl, op)
		inv := e.log(Ev{Kind: EvInvoke, Op: OpDel, Task: tk, OpIx: ix, Key: int32(op.Key)})
		if e.pendingNew != nil && e.pendingNew[e.keyHash[op.Key]] > 0 {
			probe(PrDelWhileBuffered)
		}
		e.api.Del(op.Key)
		e.noteDel(op.Key)
		e.log(Ev{Kind: EvReturn, Op: OpDel, Task: tk, OpIx: ix, Key: int32(op.Key), Ref: inv})
		e.opEnd(cl)
	case OpGetTTL:
		e.opBegin(cl, op)
		inv := e.log(Ev{Kind: EvInvoke, Op: OpGetTTL, Task: tk, OpIx: ix, Key: int32(op.Key)})
		d, ok := e.api.GetTTL(op.Key)
		e.log(Ev{Kind: EvReturn, Op: OpGetTTL, Task: tk, OpIx: ix, Key: int32(op.Key), OK: ok, A: int64(d), Ref: inv})
		e.opEnd(cl)
	case OpIter:
		e.opBegin(cl, op)
		inv := e.log(Ev{Kind: EvInvoke, Op: OpIter, Task: tk, OpIx: ix, A: op.Arg})
		n := int64(0)
		e.api.IterValues(func(v *Val) bool {
			e.log(Ev{Kind: EvIterItem, Task: tk, OpIx: ix, Val: vid(v), Key: keyOf(v), Ref: inv})
			n++
			return op.Arg >= 0 && n > op.Arg
		})
		e.log(Ev{Kind: EvReturn, Op: OpIter, Task: tk, OpIx: ix, A: n, Ref: inv})
		e.opEnd(cl)
	case OpWait:
		e.opBegin(cl, op)
		inv := e.log(Ev{Kind: EvInvoke, Op: OpWait, Task: tk, OpIx: ix})
		cl.waitSeq++
		cl.waitQueued = false
		e.api.Wait()
		e.noteDrained(false)
		e.log(Ev{Kind: EvReturn, Op: OpWait, Task: tk, OpIx: ix, Ref: inv})
		e.opEnd(cl)
	case OpClear:
		e.opBegin(cl, op)
		atomic.AddInt32(&e.clearActive, 1)
		inv := e.log(Ev{Kind: EvInvoke, Op: OpClear, Task: tk, OpIx: ix})
		atomic.StoreUint64(&e.lastClearInv, inv)
		wasClosed := e.closed
		waiters := e.blockedWaiters(cl)
		e.api.Clear()
		e.log(Ev{Kind: EvReturn, Op: OpClear, Task: tk, OpIx: ix, Ref: inv, B: b2i(wasClosed)})
		if !wasClosed && !e.closed {
			e.checkWaitersReleased(waiters, inv, "Clear")
		}
		e.noteDrained(true)
		if !wasClosed && !e.clearDirty && atomic.LoadInt32(&e.clearActive) == 1 && atomic.LoadInt32(&e.inflight) == 1 {
			e.checkFreshAfterCleanClear(inv)
		}
		e.clearEnd(wasClosed)
		e.opEnd(cl)
	case OpUpdateMaxCost:
		// one raise at a time: two concurrent read-modify-write raises could
		// store the smaller target last, i.e. LOWER MaxCost, which the
		// properties (C03) exclude
		if !atomic.CompareAndSwapInt32(&e.upmaxBusy, 0, 1) {
			return
		}
		defer atomic.StoreInt32(&e.upmaxBusy, 0)
		e.opBegin(cl, op)
		cur := e.api.MaxCost()
		target := satAdd(cur, op.Arg) // never wraps into a lowering
		if op.Arg < -(1 << 49) {
			target = op.Arg + (1 << 50) // absolute small value
		}
		if target < 1 {
			target = 1
		}
		inv := e.log(Ev{Kind: EvInvoke, Op: OpUpdateMaxCost, Task: tk, OpIx: ix, A: target})
		e.api.UpdateMaxCost(target)
		e.log(Ev{Kind: EvReturn, Op: OpUpdateMaxCost, Task: tk, OpIx: ix, Ref: inv})
		e.opEnd(cl)
	case OpMaxCost, OpRemaining, OpMetrics:
		e.opBegin(cl, op)
		inv := e.log(Ev{Kind: EvInvoke, Op: uint8(op.K), Task: tk, OpIx: ix})
		var a int64
		switch op.K {
		case OpMaxCost:
			a = e.api.MaxCost()
		case OpRemaining:
			a = e.api.RemainingCost()
		case OpMetrics:
			if m := e.api.Metrics(); m != nil {
				// C17: GetsKept+GetsDropped never exceeds the number of Gets (checked at every read)
				// (the counters are read first, the bound afterwards: a Get may start
				// while the metric cells are being summed)
				kd := int64(m.GetsKept() + m.GetsDropped())
				gets := atomic.LoadInt64(&e.getsStartedEver)
				a = kd
				if e.epochValid && !e.clearDirty && atomic.LoadInt32(&e.clearActive) == 0 && kd > gets {
					e.violate("C17", "gets-kept-dropped", fmt.Sprintf("GetsKept+GetsDropped=%d exceeds Gets issued=%d", kd, gets), 0)
				}
				_ = m.Ratio()
				_ = m.String()
			}
		}
		e.log(Ev{Kind: EvReturn, Op: uint8(op.K), Task: tk, OpIx: ix, A: a, Ref: inv})
		e.opEnd(cl)
	case OpYield:
		for i := int64(0); i < op.Arg; i++ {
			core.Yield(SiteHarnessYield, 0)
		}
	case OpClose:
		e.opBegin(cl, op)
		inv := e.log(Ev{Kind: EvInvoke, Op: OpClose, Task: tk, OpIx: ix})
		e.api.Close()
		e.closed = true
		e.log(Ev{Kind: EvReturn, Op: OpClose, Task: tk, OpIx: ix, Ref: inv})
		e.closing = false
		e.opEnd(cl)
	case OpQuiesce:
		e.reqQuiesce = 1 + int(op.Arg)
		e.finalProp = ""
		if op.Arg == 2 {
			// expiry must work on a cleared cache as on a new one (C15)
			e.reqQuiesce = 2
			e.finalProp = "C15"
		}
		core.Yield(SiteEpiRequest, 0)
	case OpCheckEmpty, OpCheckFresh:
		e.reqCheck = op.K
		core.Yield(SiteEpiRequest, 0)
	case OpAdvance:
		e.reqAdvance = op.TTL
		core.Yield(SiteEpiRequest, 0)
	case OpProbeClosed:
		e.probeClosed(cl, oi)
	}
}

func (e *Engine) clearEnd(wasClosed bool) {
	n := atomic.AddInt32(&e.clearActive, -1)
	if wasClosed {
		return
	}
	if n == 0 {
		if e.clearDirty {
			probe(PrDirtyClear)
		} else {
			probe(PrCleanClear)
		}
		if e.clearDirty {
			e.epochValid = false
			e.clearDirty = false
		} else {
			// clean Clear: new metrics epoch
			e.epochValid = true
			atomic.StoreInt64(&e.getsDone, 0)
			atomic.StoreInt64(&e.setsFalse, 0)
		}
	}
}

func keyOf(v *Val) int32 {
	if v == nil {
		return -1
	}
	return int32(v.Key)
}

func b2i(b bool) int64 {
	if b {
		return 1
	}
	return 0
}

// internalCost is the per-item internal cost, measured once per process on a
// plain cache outside any simulation (never copied from the implementation).
func (e *Engine) internalCost() int64 { return measuredIntern }

var measuredIntern int64 = -1

// MeasureInternalCost must be called outside any bubble, with no hooks installed.
func MeasureInternalCost() int64 {
	if measuredIntern >= 0 {
		return measuredIntern
	}
	c, err := ristretto.NewCache(&ristretto.Config[int, *Val]{NumCounters: 16, MaxCost: 1 << 30, BufferItems: 4})
	if err != nil {
		panic(err)
	}
	for !c.Set(1, &Val{}, 0) {
	}
	c.Wait()
	measuredIntern = c.MaxCost() - c.RemainingCost()
	c.Close()
	return measuredIntern
}

// checkStrandedWaiters: when a run cannot make progress, a client still
// blocked inside Wait() although a Clear or Close returned after that Wait was
// invoked has not been released (C15).
func (e *Engine) checkStrandedWaiters() {
	n := int(e.nevs)
	if n > maxEvs {
		n = maxEvs
	}
	// the epilogue task is alone: if it cannot complete an operation it
	// invoked after one of its own Clears returned, the cleared cache does not
	// serve as a fresh one would
	if e.epi != nil && e.epi.inOp && e.epi.task.State() != core.StDone && !e.closed {
		var lastClearRet uint64
		for i := 0; i < n; i++ {
			ev := &e.evs[i]
			if ev.Kind == EvReturn && ev.Op == OpClear && int(ev.Task) == e.epi.id {
				lastClearRet = ev.Seq
			}
		}
		if lastClearRet != 0 {
			e.violate("C15", "not-serving-after-clear", fmt.Sprintf("after Clear returned at #%d (no other caller active) the %s issued next never completed", lastClearRet, OpNames[e.epi.cur.K]), lastClearRet)
		}
	}
	for _, cl := range e.clients {
		if !(cl.inOp && cl.cur.K == OpWait && cl.task.State() == core.StRunning) {
			continue
		}
		var waitInv uint64
		for i := n - 1; i >= 0; i-- {
			ev := &e.evs[i]
			if ev.Kind == EvInvoke && ev.Op == OpWait && int(ev.Task) == cl.id {
				waitInv = ev.Seq
				break
			}
		}
		for i := 0; i < n; i++ {
			ev := &e.evs[i]
			if ev.Kind == EvReturn && (ev.Op == OpClear || ev.Op == OpClose) && ev.Seq > waitInv && ev.Ref > 0 && ev.B == 0 {
				// the Clear/Close must have started after the Wait was invoked to be obliged to release it
				if ev.Ref > waitInv {
					e.violate("C15", "waiter-not-released", fmt.Sprintf("client c%d has been blocked in Wait() since #%d although %s [#%d,#%d] completed meanwhile", cl.id, waitInv, OpNames[ev.Op], ev.Ref, ev.Seq), ev.Seq)
				}
			}
		}
	}
}

func (e *Engine) clientOf(t *core.Task) *client {
	for _, cl := range e.clients {
		if cl.task == t {
			return cl
		}
	}
	if e.epi != nil && e.epi.task == t {
		return e.epi
	}
	if e.closer != nil && e.closer.task == t {
		return e.closer
	}
	return nil
}
