package cachesim

import (
	"fmt"
	"os"
	"time"
)

var traceOn bool

var hookNames = map[uint8]string{
	evApplierNew: "applier.new", evApplierAdded: "applier.added", evPolicyVictim: "policy.victim", evApplierUpdate: "applier.update",
	evApplierDelete: "applier.delete", evApplierDone: "applier.done", evApplierMarker: "applier.marker", evSweepBegin: "sweep.begin",
	evSweepEnd: "sweep.end", evSweepKey: "sweep.remove", evClearMarker: "clear.marker", evClearDrained: "clear.drained",
	evSetDropped: "set.dropped", evSetQueued: "set.queued", evSweepSkipped: "sweep.skip", evPolicyAdd: "policy.add",
	evPolicyReject: "policy.reject", evPolicyFits: "policy.fits", evDelQueued: "del.queued",
}

// Excerpt renders events [from, from+n) as text.
func (e *Engine) Excerpt(from, n int) []string {
	var out []string
	total := int(e.nevs)
	if total > maxEvs {
		total = maxEvs
	}
	t0 := e.startT.UnixNano()
	for i := from; i < total && i < from+n; i++ {
		ev := &e.evs[i]
		who := fmt.Sprintf("c%d", ev.Task)
		switch ev.Task {
		case -1:
			who = "bg"
		case -2:
			who = "sched"
		case 99:
			who = "epi"
		case 90:
			who = "closer"
		}
		s := fmt.Sprintf("#%d +%v %s ", ev.Seq, time.Duration(ev.T-t0), who)
		switch ev.Kind {
		case EvInvoke:
			s += fmt.Sprintf("invoke %s key=%d val=%d a=%d b=%d", OpNames[ev.Op], ev.Key, ev.Val, ev.A, ev.B)
		case EvReturn:
			s += fmt.Sprintf("return %s key=%d val=%d ok=%v a=%d (invoked #%d)", OpNames[ev.Op], ev.Key, ev.Val, ev.OK, ev.A, ev.Ref)
		case EvExit:
			s += fmt.Sprintf("OnExit val=%d key=%d", ev.Val, ev.Key)
		case EvEvict:
			s += fmt.Sprintf("OnEvict val=%d key=%d cost=%d insweep=%v", ev.Val, ev.Key, ev.A, ev.OK)
		case EvReject:
			s += fmt.Sprintf("OnReject val=%d key=%d", ev.Val, ev.Key)
		case EvHook:
			s += fmt.Sprintf("%s key=%d h=%#x a=%d b=%d", hookNames[ev.Op], ev.Key, ev.H, ev.A, ev.B)
		case EvIterItem:
			s += fmt.Sprintf("iter item val=%d", ev.Val)
		case EvClock:
			s += fmt.Sprintf("clock +%v", time.Duration(ev.A))
		case EvQuiesce:
			s += "quiescent point"
		}
		out = append(out, s)
	}
	return out
}

// ExcerptAround renders events around a sequence number.
func (e *Engine) ExcerptAround(seq uint64, before, after int) []string {
	total := int(e.nevs)
	if total > maxEvs {
		total = maxEvs
	}
	idx := total
	for i := 0; i < total; i++ {
		if e.evs[i].Seq >= seq {
			idx = i
			break
		}
	}
	from := idx - before
	if from < 0 {
		from = 0
	}
	return e.Excerpt(from, before+after)
}

// Digest summarises a run for the determinism self-test: schedule
// fingerprint, decision tape, event log and verdicts.
func (e *Engine) Digest(res *RunResult) string {
	h := uint64(14695981039346656037)
	mix := func(x uint64) { h = (h ^ x) * 1099511628211 }
	for _, t := range res.Tape {
		mix(uint64(t.L))
		mix(uint64(t.N))
		mix(uint64(t.V))
		mix(uint64(t.Ord))
	}
	th := h
	h = 14695981039346656037
	total := int(e.nevs)
	if total > maxEvs {
		total = maxEvs
	}
	hashDep := e.plan != nil && e.plan.Flags.HashDep
	for i := 0; i < total; i++ {
		ev := &e.evs[i]
		if hashDep {
			// key hashes (runtime.memhash) differ per process: the order in which
			// shards are visited, and with it the order of callbacks inside one
			// Clear/IterValues, is not part of the replayable behaviour
			break
		}
		mix(ev.Seq)
		mix(uint64(ev.T))
		mix(uint64(ev.Kind)<<8 | uint64(ev.Op))
		mix(uint64(int64(ev.Task)))
		mix(uint64(int64(ev.Key)))
		mix(uint64(int64(ev.Val)))
		mix(uint64(ev.A))
		mix(uint64(ev.B))
		if ev.OK {
			mix(1)
		}
		if !hashDep {
			mix(ev.H)
		}
	}
	vs := ""
	for _, v := range res.Violations {
		vs += v.Prop + "/" + v.Rule + ";"
	}
	return fmt.Sprintf("fp=%x tape=%x/%d ev=%x/%d steps=%d abort=%q viol=%s", res.FP, th, len(res.Tape), h, total, res.Steps, res.Abort, vs)
}

// DumpEvents writes the raw event log (debugging aid of the determinism
// self-test).
func (e *Engine) DumpEvents(path string) {
	var b []byte
	total := int(e.nevs)
	if total > maxEvs {
		total = maxEvs
	}
	for i := 0; i < total; i++ {
		ev := &e.evs[i]
		b = fmt.Appendf(b, "%d t=%d k=%d op=%d task=%d key=%d val=%d a=%d b=%d ok=%v h=%x\n", ev.Seq, ev.T, ev.Kind, ev.Op, ev.Task, ev.Key, ev.Val, ev.A, ev.B, ev.OK, ev.H)
	}
	os.WriteFile(path, b, 0o644)
}
