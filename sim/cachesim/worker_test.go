package cachesim

import (
	"runtime"
	"bufio"
	"encoding/json"
	"fmt"
	"os"
	"strings"
	"sync"
	"sync/atomic"
	"testing"
	"testing/synctest"
	"time"

	"verifsim/core"
)

// Job is what the driver asks one worker process to do.
type Job struct {
	Mode     string   `json:"mode"` // batch | replay | record
	Prop     string   `json:"prop"`
	Profiles []string `json:"profiles"`
	Seed     uint64   `json:"seed"`   // VERIF_SEED
	Start    uint64   `json:"start"`  // first run index
	Stride   uint64   `json:"stride"` // index increment
	MaxRuns  int      `json:"max_runs"`
	Deadline int64    `json:"deadline_unix_ms"`
	Out      string   `json:"out"`
	Replay   string   `json:"replay,omitempty"` // replay file (mode replay/record)
	Lenient  bool     `json:"lenient,omitempty"`
	Trace    bool     `json:"trace,omitempty"`
	StopOnV  bool     `json:"stop_on_violation"`
	Samples  int      `json:"samples"`
	Digest   bool     `json:"digest,omitempty"`
}

// ReplayFile is the artefact written for every violation.
type ReplayFile struct {
	Property  string           `json:"property"`
	Rule      string           `json:"rule"`
	Message   string           `json:"message"`
	Engine    string           `json:"engine"`
	Race      bool             `json:"race"`
	VSeed     uint64           `json:"verif_seed"`
	RunIndex  uint64           `json:"run_index"`
	RunSeed   uint64           `json:"run_seed"`
	Profile   string           `json:"profile"`
	Plan      *Plan            `json:"plan"`
	Tape      []core.TapeEntry `json:"tape"`
	RepoRev   string           `json:"repo_rev,omitempty"`
	Excerpt   []string         `json:"excerpt,omitempty"`
	Minimised bool             `json:"minimised"`
}

type outLine struct {
	T     string           `json:"t"`
	I     uint64           `json:"i"`
	Seed  uint64           `json:"seed,omitempty"`
	Res   *RunResult       `json:"res,omitempty"`
	NT    bool             `json:"nt,omitempty"`
	Sum   *Summary         `json:"sum,omitempty"`
	Plan  *Plan            `json:"plan,omitempty"`
	Tape  []core.TapeEntry `json:"tape,omitempty"`
	Trace []string         `json:"trace,omitempty"`
	D     string           `json:"d,omitempty"`
}

type Summary struct {
	Runs       int            `json:"runs"`
	Steps      int64          `json:"steps"`
	SimNanos   int64          `json:"sim_ns"`
	Decisions  int64          `json:"decisions"`
	Probes     map[string]int `json:"probes"`
	ProbeRuns  map[string]int `json:"probe_runs"`
	Strategies map[string]int `json:"strategies"`
	Profiles   map[string]int `json:"profiles"`
	Aborts     map[string]int `json:"aborts"`
	FPs        []uint64       `json:"fps"`
	Pairs      []int          `json:"pairs"` // a*256+b
	Faults     map[string]int `json:"faults"`
	Samples    []any          `json:"samples"`
	WallMs     int64          `json:"wall_ms"`
}

// nontrivial: did the run reach the state the property is about?
func nontrivial(prop string, p *[NumProbes]int, r *RunResult) bool {
	switch prop {
	case "C01":
		return p[PrGetHit] > 0 && (p[PrEvicted]+p[PrRejected]+p[PrCollisionUsed]+p[PrSweepRemoved]+p[PrUnguaranteedCollision]) > 0
	case "C02":
		return p[PrExitBeforeGet] > 0
	case "C03", "C09":
		return p[PrEvictionDecision]+p[PrRejectDecision] > 0
	case "C04":
		return p[PrNewSetDropped]+p[PrUpdateDropped]+p[PrRejected]+p[PrEvicted]+p[PrClearDrainedNew]+p[PrSweepRemoved] > 0
	case "C05":
		return p[PrC05Checks] > 0 && p[PrDelWhileBuffered] > 0
	case "C06":
		return p[PrModelChecks] > 2
	case "C07":
		return p[PrTTLHit]+p[PrExpiredServedCheck]+p[PrGetAtExpiry] > 0
	case "C08":
		return r.Steps > 20
	case "C13":
		return p[PrQuiescent] > 0 && (p[PrEvicted]+p[PrRejected]+p[PrSweepRemoved]+p[PrNewSetDropped]+p[PrUpdateDropped]) > 0
	case "C14":
		return p[PrSweepRemoved]+p[PrSweepSkipped] > 0
	case "C15":
		return p[PrClosedProbed]+p[PrFreshChecked] > 0
	case "C17":
		return p[PrMetricsChecked] > 0
	}
	return true
}

var NontrivialRule = map[string]string{
	"C01": "a Get hit in a run that also saw an eviction, rejection, sweep removal or a primary-hash collision",
	"C02": "a Get returned a value that the cache (earlier or later in the run) passed to OnExit",
	"C03": "at least one admission that needed an eviction or ended in a rejection",
	"C04": "at least one dropped Set, rejection, eviction, sweep removal or buffered item drained by Clear",
	"C05": "a Del ran while an earlier insert of the same key was still buffered, and a Wait followed it",
	"C06": "more than two reads were compared against the reference model",
	"C07": "a read before expiry hit a TTL item, or a read at/after the expiration instant was checked",
	"C08": "more than 20 scheduling steps",
	"C09": "at least one admission that needed an eviction or ended in a rejection",
	"C13": "a quiescent point was checked in a run with an eviction, rejection, sweep removal or dropped write",
	"C14": "the sweep examined at least one key (removed or skipped it)",
	"C15": "post-Close probes or a post-Clear freshness check ran",
	"C17": "the conservation laws were evaluated at a quiescent point with metrics enabled",
}

func runOne(t *testing.T, plan *Plan, dec *core.Decider, eng *Engine) (res *RunResult) {
	defer func() {
		if r := recover(); r != nil {
			// end-of-bubble deadlock (blocked goroutines left behind by an aborted run)
			if res == nil {
				res = &RunResult{Seed: plan.Seed, Profile: plan.Profile, Abort: fmt.Sprintf("bubble: %v", r)}
			} else {
				res.LeftTasks++
			}
		}
	}()
	synctest.Test(t, func(t *testing.T) {
		res = eng.Run(plan, dec)
	})
	return res
}

func TestWorker(t *testing.T) {
	jobPath := os.Getenv("VERIF_JOB")
	if jobPath == "" {
		t.Skip("VERIF_JOB not set")
	}
	raw, err := os.ReadFile(jobPath)
	if err != nil {
		t.Fatal(err)
	}
	var job Job
	if err := json.Unmarshal(raw, &job); err != nil {
		t.Fatal(err)
	}
	for _, pn := range job.Profiles {
		if base, _ := strings.CutSuffix(pn, "+deep"); profiles[base] == nil {
			t.Fatalf("MACHINERY: unknown profile %q in job", pn)
		}
	}
	MeasureInternalCost()
	f, err := os.OpenFile(job.Out, os.O_CREATE|os.O_WRONLY|os.O_APPEND, 0o644)
	if err != nil {
		t.Fatal(err)
	}
	w := bufio.NewWriter(f)
	var emitMu sync.Mutex
	emit := func(l outLine) {
		emitMu.Lock()
		defer emitMu.Unlock()
		b, _ := json.Marshal(l)
		w.Write(b)
		w.WriteByte('\n')
		w.Flush()
	}
	// wall-clock watchdog (outside every bubble): a task that neither yields
	// nor blocks for 60 s is a non-termination
	var curIdx, curSeed atomic.Uint64
	var active atomic.Bool
	go func() {
		last := workerProgress.Load()
		stalled := 0 // consecutive one-second looks without scheduling progress
		stallCPU := int64(-1)
		for {
			t0 := time.Now()
			time.Sleep(time.Second)
			late := time.Since(t0) > 1500*time.Millisecond // this goroutine was itself held up: the process is being starved or was paused
			p := workerProgress.Load()
			if p != last || !active.Load() || late {
				last, stalled, stallCPU = p, 0, -1
				continue
			}
			// Counted in looks, not in wall-clock time: after a pause of the whole
			// machine the first look must not conclude anything.
			stalled++
			if stallCPU < 0 {
				stallCPU = cpuTicks()
			}
			// A process that makes no progress and burns no CPU is blocked for good
			// (a goroutine waits for a sync.Mutex held by a parked task, which
			// synctest cannot see); one that is busy may just be slow, or spinning.
			idle := false
			if c := cpuTicks(); c >= 0 && stallCPU >= 0 {
				idle = stalled >= 5 && c-stallCPU <= 2
			}
			if idle || stalled >= 25 {
				emit(outLine{T: "hang", I: curIdx.Load(), Seed: curSeed.Load()})
				// where is everybody? (diagnostics for the crash report)
				buf := make([]byte, 1<<20)
				n := runtime.Stack(buf, true)
				fmt.Fprintf(os.Stderr, "worker watchdog: no scheduling progress (idle=%v, looks=%d) in run %d seed %d; goroutines:\n%s\n", idle, stalled, curIdx.Load(), curSeed.Load(), buf[:n])
				os.Exit(3)
			}
		}
	}()

	eng := NewEngine()
	start := time.Now()

	switch job.Mode {
	case "replay", "record":
		rb, err := os.ReadFile(job.Replay)
		if err != nil {
			t.Fatal(err)
		}
		var rf ReplayFile
		if err := json.Unmarshal(rb, &rf); err != nil {
			t.Fatal(err)
		}
		plan := rf.Plan
		if plan == nil {
			plan = GenPlan(rf.Profile, rf.RunSeed)
		}
		var dec *core.Decider
		if len(rf.Tape) > 0 {
			dec = core.NewReplayDecider(plan.Seed, rf.Tape, !job.Lenient)
		} else {
			dec = core.NewDecider(plan.Seed)
		}
		emit(outLine{T: "start", I: rf.RunIndex, Seed: plan.Seed})
		active.Store(true)
		traceOn = job.Trace
		res := runOne(t, plan, dec, eng)
		active.Store(false)
		l := outLine{T: "run", I: rf.RunIndex, Seed: plan.Seed, Res: res, Plan: plan, Tape: res.Tape}
		if job.Trace {
			l.Trace = eng.Excerpt(0, 400)
		}
		emit(l)
		f.Close()
		return
	}

	if job.Mode == "minimise" {
		rb, err := os.ReadFile(job.Replay)
		if err != nil {
			t.Fatal(err)
		}
		var rf ReplayFile
		if err := json.Unmarshal(rb, &rf); err != nil {
			t.Fatal(err)
		}
		plan := rf.Plan
		if plan == nil {
			plan = GenPlan(rf.Profile, rf.RunSeed)
		}
		var dec *core.Decider
		if len(rf.Tape) > 0 {
			dec = core.NewReplayDecider(plan.Seed, rf.Tape, false)
		} else {
			dec = core.NewDecider(plan.Seed)
		}
		active.Store(true)
		res := runOne(t, plan, dec, eng)
		v := hasViolation(res, rf.Property, rf.Rule)
		if v == nil {
			emit(outLine{T: "notreproduced", I: rf.RunIndex, Seed: plan.Seed, Res: res})
			f.Close()
			return
		}
		rule := v.Rule
		budget := 45 * time.Second
		if job.MaxRuns > 0 {
			budget = time.Duration(job.MaxRuns) * time.Second
		}
		mp, mt, mres, tried := Minimise(t, eng, plan, res.Tape, rf.Property, rule, budget)
		active.Store(false)
		mv := hasViolation(mres, rf.Property, rule)
		out := rf
		out.Plan, out.Tape, out.Rule, out.Minimised = mp, mt, rule, true
		if mv != nil {
			out.Message = mv.Msg
			out.Excerpt = eng.ExcerptAround(mv.Seq, 40, 8)
		}
		out.Engine = "cachesim"
		out.Race = core.RaceEnabled
		b, _ := json.MarshalIndent(out, "", " ")
		if err := os.WriteFile(job.Replay+".min", b, 0o644); err != nil {
			t.Fatal(err)
		}
		emit(outLine{T: "minimised", I: uint64(tried), Seed: plan.Seed, Res: mres})
		f.Close()
		return
	}

	sum := &Summary{Probes: map[string]int{}, ProbeRuns: map[string]int{}, Strategies: map[string]int{}, Profiles: map[string]int{}, Aborts: map[string]int{}, Faults: map[string]int{}}
	fps := map[uint64]bool{}
	deadline := time.UnixMilli(job.Deadline)
	idx := job.Start
	for n := 0; n < job.MaxRuns || job.MaxRuns == 0; n++ {
		if job.Deadline > 0 && time.Now().After(deadline) {
			break
		}
		seed := core.RunSeed(job.Seed, idx)
		prof := job.Profiles[int(idx%uint64(len(job.Profiles)))]
		plan := GenPlan(prof, seed)
		dec := core.NewDecider(seed)
		dec.NoRecord = false
		curIdx.Store(idx)
		curSeed.Store(seed)
		emit(outLine{T: "start", I: idx, Seed: seed})
		active.Store(true)
		res := runOne(t, plan, dec, eng)
		active.Store(false)
		if p := os.Getenv("VERIF_STEP_TRACE"); p != "" {
			os.WriteFile(p, StepTrace, 0o644)
			StepTrace = StepTrace[:0]
		}
		nt := nontrivial(job.Prop, &res.Probes, res)
		sum.Runs++
		sum.Steps += int64(res.Steps)
		sum.SimNanos += res.SimNanos
		sum.Decisions += int64(res.Decisions)
		sum.Strategies[core.StratNames[plan.Sim.Sched.Strategy]]++
		sum.Profiles[prof]++
		if res.Abort != "" {
			sum.Aborts[res.Abort]++
		}
		for i, c := range res.Probes {
			if c > 0 {
				sum.Probes[ProbeNames[i]] += c
				sum.ProbeRuns[ProbeNames[i]]++
			}
		}
		sum.Faults["clock_advance"] += eng.nClock
		sum.Faults["quiescent_point"] += eng.nQuiesce
		sum.Faults["gate_items"] += eng.gateCount[0]
		sum.Faults["gate_tick"] += eng.gateCount[1]
		sum.Faults["gate_stop"] += eng.gateCount[2]
		sum.Faults["resumed_after_unlock"] += eng.nAfterUnlock
		sum.Faults["preempted_after_unlock"] += eng.nPreemptAfterUnlock
		sum.Faults["parked_at_automatic_site"] += eng.sim.AutoParks
		if nt {
			fps[res.FP] = true
		}
		if len(sum.Samples) < job.Samples && (nt || n > 20) {
			smp := sampleOf(plan, res).(map[string]any)
			smp["first_events"] = eng.Excerpt(0, 30)
			sum.Samples = append(sum.Samples, smp)
		}
		if job.Digest {
			emit(outLine{T: "digest", I: idx, D: eng.Digest(res)})
			if dir := os.Getenv("VERIF_DIGEST_DUMP"); dir != "" {
				eng.DumpEvents(fmt.Sprintf("%s/%d.txt", dir, idx))
			}
		}
		bad := len(res.Violations) > 0 || res.Abort != "" || res.LeftTasks > 0 || res.Diverged != ""
		if bad {
			l := outLine{T: "run", I: idx, Seed: seed, Res: res, NT: nt}
			emit(l)
		}
		emit(outLine{T: "end", I: idx}) // a death after this line is not this run's
		idx += job.Stride
		if res.LeftTasks > 0 || strings.HasPrefix(res.Abort, "bubble") {
			// blocked goroutines were left behind: this process is tainted
			break
		}
		if job.StopOnV && len(res.Violations) > 0 {
			break
		}
	}
	for fp := range fps {
		sum.FPs = append(sum.FPs, fp)
	}
	for a := 0; a < 256; a++ {
		for b := 0; b < 256; b++ {
			if sitePairs[a][b] {
				sum.Pairs = append(sum.Pairs, a*256+b)
			}
		}
	}
	sum.WallMs = time.Since(start).Milliseconds()
	emit(outLine{T: "summary", I: idx, Sum: sum})
	f.Close()
}

func sampleOf(plan *Plan, res *RunResult) any {
	progs := []string{}
	for ci, c := range plan.Clients {
		s := fmt.Sprintf("c%d:", ci)
		for i, op := range c {
			if i >= 12 {
				s += " ..."
				break
			}
			s += " " + opString(op)
		}
		progs = append(progs, s)
	}
	tape := ""
	for i, e := range res.Tape {
		if i >= 40 {
			tape += "..."
			break
		}
		tape += fmt.Sprintf("%c%d/%d ", e.L, e.V, e.N)
	}
	return map[string]any{
		"profile": plan.Profile, "run_seed": plan.Seed, "strategy": core.StratNames[plan.Sim.Sched.Strategy],
		"cfg": map[string]any{"max_cost": plan.Cfg.MaxCost, "set_buf": plan.Cfg.SetBufSize, "buffer_items": plan.Cfg.BufferItems,
			"num_counters": plan.Cfg.NumCounters, "keys": len(plan.Cfg.Keys) - 1, "key_kind": KeyKindNames[plan.Cfg.KeyKind], "custom_hasher": plan.Cfg.Hasher == HashCustom,
			"ticker_s": plan.Cfg.TickerSec, "metrics": plan.Cfg.Metrics},
		"programs": progs, "steps": res.Steps, "sim_time": time.Duration(res.SimNanos).String(), "first_decisions": tape,
	}
}

func opString(op Op) string {
	switch op.K {
	case OpGet, OpDel, OpGetTTL:
		return fmt.Sprintf("%s(k%d)", OpNames[op.K], op.Key)
	case OpSet:
		if op.TTL != 0 {
			return fmt.Sprintf("Set(k%d,c%d,ttl=%v)", op.Key, op.Cost, time.Duration(op.TTL))
		}
		return fmt.Sprintf("Set(k%d,c%d)", op.Key, op.Cost)
	case OpSetRoom:
		return fmt.Sprintf("SetRoom(k%d,%+d)", op.Key, op.Arg)
	case OpIter, OpYield, OpUpdateMaxCost:
		return fmt.Sprintf("%s(%d)", OpNames[op.K], op.Arg)
	case OpAdvance:
		return fmt.Sprintf("Advance(%v)", time.Duration(op.TTL))
	}
	return OpNames[op.K]
}

// cpuTicks returns the CPU time (user+system, clock ticks) this process has
// used, or -1 when /proc is not available.
func cpuTicks() int64 {
	b, err := os.ReadFile("/proc/self/stat")
	if err != nil {
		return -1
	}
	// fields after the command name in parentheses
	i := strings.LastIndexByte(string(b), ')')
	if i < 0 {
		return -1
	}
	f := strings.Fields(string(b[i+1:]))
	if len(f) < 13 {
		return -1
	}
	var ut, st int64
	fmt.Sscan(f[11], &ut)
	fmt.Sscan(f[12], &st)
	return ut + st
}
